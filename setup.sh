#!/bin/bash
# Offline setup: pre-builds the BX crate (real stun-types/stun-proto as path dependencies), cross-checks the BX reference
# crypto against python hashlib/zlib, warms the Verus cache.  Every check rebuilds what it needs anyway.
cd "$(dirname "$0")"
export CARGO_NET_OFFLINE=true
mkdir -p build evidence replays
(cd bx && CARGO_TARGET_DIR=../build/bx-target cargo build --offline --bins 2>&1 | tail -2)
if [ -x build/bx-target/debug/bx ]; then
python3 - <<'PY'
import hashlib, hmac, zlib, subprocess
out = subprocess.check_output(['build/bx-target/debug/bx', 'selftest']).decode().split('\n')
ok = out[0].strip() == 'selftest ok'
for l in out[1:]:
    f = l.split()
    if not f: continue
    n = int(f[0]); d = bytes((i * 7 + 3) & 0xff for i in range(n))
    want = [hashlib.md5(d).hexdigest(), hashlib.sha1(d).hexdigest(), hashlib.sha256(d).hexdigest(), '%08x' % zlib.crc32(d),
            hmac.new(b'key', d, 'sha1').hexdigest(), hmac.new(d, d, 'sha256').hexdigest()]
    ok = ok and f[1:] == want
print('bx reference crypto vs python hashlib/zlib:', 'ok' if ok else 'MISMATCH')
PY
fi
echo "setup done"
