#!/bin/bash
# Offline setup: pre-builds the BX crate (real stun-types/stun-proto as path dependencies) and warms Verus.
set -e
cd "$(dirname "$0")"
export CARGO_NET_OFFLINE=true
mkdir -p build evidence replays
(cd bx && CARGO_TARGET_DIR=../build/bx-target cargo build --offline --bins 2>&1 | tail -2) || true
echo "setup done"
