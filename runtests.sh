#!/bin/bash
# Runs the repository's baseline test-suite with the guard OFF (no cfg(kani), nothing injected).
cd /repo || exit 2
if [ "$1" = "--full" ]; then
  exec cargo test --workspace --no-fail-fast --offline
fi
cargo test --workspace --no-fail-fast --offline 2>&1 | grep -E "^test result|FAILED|failed|panicked"
