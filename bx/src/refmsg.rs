//! Independent reference decoder / encoder for STUN messages, written from RFC 8489 and the text of
//! properties C02, C09, C10 (not from the library's code).
use crate::refcrypto::crc32;

pub const MI: u16 = 0x0008;
pub const MI256: u16 = 0x001c;
pub const FP: u16 = 0x8028;

#[derive(Debug, Clone, PartialEq, Eq)]
pub enum RefErr {
    NotStun,
    Truncated { expected: usize, actual: usize },
    /// interior truncation: byte counts are not pinned by the property
    TruncatedInterior,
    /// declared length shorter than the buffer
    Excess,
    AfterIntegrity(u16),
    AfterFingerprint(u16),
    FingerprintMismatch,
    /// a FINGERPRINT attribute whose value is not 4 bytes long
    FingerprintMalformed,
}

#[derive(Debug, Clone)]
pub struct RefAttr { pub ty: u16, pub off: usize, pub len: usize }

#[derive(Debug, Clone)]
pub struct RefMsg {
    pub class: u8,      // 0 request 1 indication 2 success 3 error
    pub method: u16,
    pub tid: u128,
    pub attrs: Vec<RefAttr>,
    /// indices into attrs of the attributes exposed by iteration/lookup (C10)
    pub exposed: Vec<usize>,
}

pub fn padded(n: usize) -> usize { (n + 3) / 4 * 4 }

pub fn be16(b: &[u8], o: usize) -> u16 { (b[o] as u16) << 8 | b[o + 1] as u16 }

pub fn rfc_type(class: u8, method: u16) -> u16 {
    let c = class as u16;
    (method & 0xf) | ((c & 1) << 4) | ((method & 0x70) << 1) | ((c & 2) << 7) | ((method & 0xf80) << 2)
}
pub fn rfc_untype(t: u16) -> (u8, u16) {
    let class = ((t >> 4) & 1) | ((t >> 7) & 2);
    let method = (t & 0xf) | ((t >> 1) & 0x70) | ((t >> 2) & 0xf80);
    (class as u8, method)
}

pub fn fingerprint_value(prefix: &[u8], end_of_fp: usize) -> [u8; 4] {
    let mut p = prefix.to_vec();
    let l = (end_of_fp - 20) as u16;
    p[2] = (l >> 8) as u8;
    p[3] = l as u8;
    (crc32(&p) ^ 0x5354554e).to_be_bytes()
}

pub fn decode(b: &[u8]) -> Result<RefMsg, RefErr> {
    if b.len() < 20 { return Err(RefErr::Truncated { expected: 20, actual: b.len() }); }
    if b[0] & 0xc0 != 0 || b[4..8] != [0x21, 0x12, 0xa4, 0x42] { return Err(RefErr::NotStun); }
    let declared = be16(b, 2) as usize;
    if declared + 20 > b.len() { return Err(RefErr::Truncated { expected: declared + 20, actual: b.len() }); }
    if declared + 20 < b.len() { return Err(RefErr::Excess); }
    let (class, method) = rfc_untype(be16(b, 0));
    let mut tid: u128 = 0;
    for i in 8..20 { tid = tid << 8 | b[i] as u128; }
    let mut attrs = vec![];
    let mut o = 20;
    let (mut seen_mi, mut seen_mi256, mut seen_fp) = (false, false, false);
    while o < b.len() {
        if o + 4 > b.len() { return Err(RefErr::TruncatedInterior); }
        let ty = be16(b, o);
        let len = be16(b, o + 2) as usize;
        if o + 4 + len > b.len() { return Err(RefErr::TruncatedInterior); }
        // ordering rules
        if seen_fp { return Err(RefErr::AfterFingerprint(ty)); }
        let ending = ty == MI || ty == MI256 || ty == FP;
        if (seen_mi || seen_mi256) && !ending { return Err(RefErr::AfterIntegrity(ty)); }
        if (ty == MI && seen_mi) || (ty == MI256 && seen_mi256) { return Err(RefErr::AfterIntegrity(ty)); }
        if o + 4 + padded(len) > b.len() { return Err(RefErr::TruncatedInterior); }
        if ty == FP {
            if len != 4 { return Err(RefErr::FingerprintMalformed); }
            if b[o + 4..o + 8] != fingerprint_value(&b[..o], o + 8) { return Err(RefErr::FingerprintMismatch); }
        }
        attrs.push(RefAttr { ty, off: o + 4, len });
        seen_mi |= ty == MI;
        seen_mi256 |= ty == MI256;
        seen_fp |= ty == FP;
        o += 4 + padded(len);
    }
    // C10 exposure rule
    let mut exposed = vec![];
    let mut st = 0; // 0 before integrity, 1 directly after MI, 2 after integrity
    for (i, a) in attrs.iter().enumerate() {
        match st {
            0 => { exposed.push(i); st = if a.ty == MI { 1 } else if a.ty == MI256 { 2 } else { 0 }; }
            1 if a.ty == MI256 => { exposed.push(i); st = 2; }
            _ => { if a.ty == FP { exposed.push(i); } st = 2; }
        }
    }
    Ok(RefMsg { class, method, tid, attrs, exposed })
}


/// Every cause a refusal of `b` may truthfully name (C02: "a rejection names its cause"): the statement does not say which one
/// is reported when several apply, nor in which order independent checks run, so the oracle accepts any of them.
pub fn causes(b: &[u8]) -> Vec<RefErr> {
    let mut out = vec![];
    if b.len() < 20 { out.push(RefErr::Truncated { expected: 20, actual: b.len() }); return out; }
    let stun = b[0] & 0xc0 == 0 && b[4..8] == [0x21, 0x12, 0xa4, 0x42];
    if !stun { out.push(RefErr::NotStun); }
    let declared = be16(b, 2) as usize;
    if declared + 20 > b.len() { out.push(RefErr::Truncated { expected: declared + 20, actual: b.len() }); }
    if declared + 20 < b.len() { out.push(RefErr::Excess); }
    if !stun || declared + 20 != b.len() { return out; }
    let mut o = 20;
    let (mut seen_mi, mut seen_mi256, mut seen_fp) = (false, false, false);
    while o < b.len() {
        if o + 4 > b.len() { out.push(RefErr::TruncatedInterior); break; }
        let ty = be16(b, o);
        let len = be16(b, o + 2) as usize;
        let ending = ty == MI || ty == MI256 || ty == FP;
        if seen_fp { out.push(RefErr::AfterFingerprint(ty)); }
        if (seen_mi || seen_mi256) && !ending { out.push(RefErr::AfterIntegrity(ty)); }
        if (ty == MI && seen_mi) || (ty == MI256 && seen_mi256) { out.push(RefErr::AfterIntegrity(ty)); }
        if o + 4 + padded(len) > b.len() { out.push(RefErr::TruncatedInterior); break; }
        if ty == FP {
            if len != 4 { out.push(RefErr::FingerprintMalformed); }
            else if b[o + 4..o + 8] != fingerprint_value(&b[..o], o + 8) { out.push(RefErr::FingerprintMismatch); }
        }
        seen_mi |= ty == MI;
        seen_mi256 |= ty == MI256;
        seen_fp |= ty == FP;
        o += 4 + padded(len);
    }
    out
}

/// reference serialisation of header + TLVs (no sealing)
pub fn encode(class: u8, method: u16, tid: u128, attrs: &[(u16, Vec<u8>)]) -> Vec<u8> {
    let mut body = vec![];
    for (ty, v) in attrs {
        body.extend_from_slice(&ty.to_be_bytes());
        body.extend_from_slice(&(v.len() as u16).to_be_bytes());
        body.extend_from_slice(v);
        while body.len() % 4 != 0 { body.push(0); }
    }
    let mut out = vec![];
    out.extend_from_slice(&rfc_type(class, method).to_be_bytes());
    out.extend_from_slice(&(body.len() as u16).to_be_bytes());
    out.extend_from_slice(&[0x21, 0x12, 0xa4, 0x42]);
    out.extend_from_slice(&tid.to_be_bytes()[4..16]);
    out.extend_from_slice(&body);
    out
}

/// append a correct FINGERPRINT to an encoded message
pub fn add_fingerprint(msg: &mut Vec<u8>) {
    let o = msg.len();
    let v = fingerprint_value(&msg[..o], o + 8);
    msg.extend_from_slice(&[0x80, 0x28, 0, 4]);
    msg.extend_from_slice(&v);
    let l = (msg.len() - 20) as u16;
    msg[2] = (l >> 8) as u8;
    msg[3] = l as u8;
}

pub fn hmac_input(msg: &[u8], attr_off: usize, attr_len: usize) -> Vec<u8> {
    // attr_off = offset of the TLV header of the integrity attribute
    let mut p = msg[..attr_off].to_vec();
    let l = (attr_off + 4 + attr_len - 20) as u16;
    p[2] = (l >> 8) as u8;
    p[3] = l as u8;
    p
}

/// append an integrity attribute (sha1: 20 bytes; sha256: `trunc` bytes) computed with the reference HMAC
pub fn add_integrity(msg: &mut Vec<u8>, key: &[u8], sha256: bool, trunc: usize) {
    let o = msg.len();
    let alen = if sha256 { trunc } else { 20 };
    let input = hmac_input(msg, o, alen);
    let mac = if sha256 { crate::refcrypto::hmac_sha256(key, &input) } else { crate::refcrypto::hmac_sha1(key, &input) };
    msg.extend_from_slice(&(if sha256 { MI256 } else { MI }).to_be_bytes());
    msg.extend_from_slice(&(alen as u16).to_be_bytes());
    msg.extend_from_slice(&mac[..alen]);
    let l = (msg.len() - 20) as u16;
    msg[2] = (l >> 8) as u8;
    msg[3] = l as u8;
}

/// Structure-only walk (tiling by padded TLVs, no ordering rules, no CRC): the attributes and the C10 exposure rule.
/// Used to judge exposure on buffers the real parser accepts although the reference refuses them.
pub fn walk_lenient(b: &[u8]) -> Option<(Vec<RefAttr>, Vec<usize>)> {
    if b.len() < 20 { return None; }
    let mut attrs = vec![];
    let mut o = 20;
    while o < b.len() {
        if o + 4 > b.len() { return None; }
        let ty = be16(b, o);
        let len = be16(b, o + 2) as usize;
        if o + 4 + padded(len) > b.len() { return None; }
        attrs.push(RefAttr { ty, off: o + 4, len });
        o += 4 + padded(len);
    }
    let mut exposed = vec![];
    let mut st = 0;
    for (i, a) in attrs.iter().enumerate() {
        match st {
            0 => { exposed.push(i); st = if a.ty == MI { 1 } else if a.ty == MI256 { 2 } else { 0 }; }
            1 if a.ty == MI256 => { exposed.push(i); st = 2; }
            _ => { if a.ty == FP { exposed.push(i); } st = 2; }
        }
    }
    Some((attrs, exposed))
}
