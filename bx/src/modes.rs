//! the bounded stand-in modes, one per property (message side)
use crate::msgcheck::*;
use crate::refcrypto::*;
use crate::refmsg::{self, RefMsg, FP, MI, MI256};
use crate::util::*;
use stun_types::attribute::*;
use stun_types::message::*;

pub fn n_cases(tier: &str, quick: u64, thorough: u64) -> u64 { if tier == "thorough" { thorough * 4 } else { quick } }

fn corpus_run(rep: &mut Report, mode: &str, tier: &str, seed: u64, fl: &Flags, quick: u64, thorough: u64) {
    let mut rng = Rng::new(seed);
    let key = key_short("pass");
    let creds = creds_short("pass");
    let n = n_cases(tier, quick, thorough);
    for i in 0..n {
        let m = gen_message(&mut rng, &key);
        if i < 3 { rep.sample(format!("message {}", hex_short(&m))); }
        check_buffer(rep, mode, &m, &key, &creds, fl, &mut rng);
        for _ in 0..3 {
            let mm = mutate(&mut rng, &m);
            check_buffer(rep, mode, &mm, &key, &creds, fl, &mut rng);
        }
    }
}

// ------------------------------------------------------------------------------------------------ C02 / C10
pub fn c02(tier: &str, seed: u64) -> Report {
    let mut rep = Report::new("c02", "grammar-generated messages (0..4 attributes from 12 types + random types, 26 tail patterns of integrity/fingerprint/ordinary attributes, correct and wrong MACs/CRCs) and 3 mutants each (bit flip, length field +-, truncation, extension, byte substitution); non-trivial = buffer of >= 20 bytes or accepted by the reference; distinct by content hash. Real parser vs independent reference decoder: acceptance, cause, fields, exposed stream, first-match lookups, typed lookups.");
    corpus_run(&mut rep, "c02", tier, seed, &Flags { c01: false, c02: true, c04: false, c10: true, c16: false }, 8000, 120000);
    exhaustive_skeletons(&mut rep, "c02", tier, &Flags { c01: false, c02: true, c04: false, c10: true, c16: false });
    rep
}
pub fn c10(tier: &str, seed: u64) -> Report {
    let mut rep = Report::new("c10", "all orders and subsets of {MI, MI-SHA256, FINGERPRINT, ordinary} at the tail (exhaustive skeletons up to 4 attributes) plus grammar-generated messages; iteration and lookups vs the exposure rule of the statement; prefix-stability under replacement of the bytes after the first integrity attribute.");
    exhaustive_skeletons(&mut rep, "c10", tier, &Flags { c01: false, c02: false, c04: true, c10: true, c16: false });
    corpus_run(&mut rep, "c10", tier, seed, &Flags { c01: false, c02: false, c04: false, c10: true, c16: false }, 3000, 40000);
    // prefix stability: replace everything after the first integrity attribute by another accepted tail
    let mut rng = Rng::new(seed ^ 0x10);
    let key = key_short("pass");
    for _ in 0..n_cases(tier, 1000, 10000) {
        let mut m = refmsg::encode(0, 1, rng.next() as u128, &[(0x8022, b"abc".to_vec()), (0x0024, rng.bytes(4))]);
        let first_sha256 = rng.coin();
        refmsg::add_integrity(&mut m, &key, first_sha256, 32);
        let cut = m.len();
        let mut a = m.clone();
        let mut b = m.clone();
        if rng.coin() { refmsg::add_fingerprint(&mut a); }
        if rng.coin() { refmsg::add_integrity(&mut b, &key, !first_sha256, 32); }
        refmsg::add_fingerprint(&mut b);
        let ea = exposed_before(&a, cut);
        let eb = exposed_before(&b, cut);
        rep.case(true, &a);
        if ea != eb { rep.violate("C10:prefix-stability", format!("exposed attributes before the first integrity attribute differ when the tail is replaced: {:x?} vs {:x?}", ea, eb), format!("c10:msg:{}", hex(&a))); }
    }
    rep
}
fn exposed_before(b: &[u8], cut: usize) -> Vec<(u16, Vec<u8>)> {
    match Message::from_bytes(b) {
        Ok(m) => { let base = b.as_ptr() as usize; m.iter_attributes().filter(|a| (a.value.as_ptr() as usize).wrapping_sub(base) < cut).map(|a| (a.get_type().value(), a.value.to_vec())).collect() }
        Err(_) => vec![],
    }
}

/// every sequence of up to `k` attributes over the alphabet {ordinary, unknown, MI, MI-SHA256, FINGERPRINT} with value
/// lengths chosen per kind, correct MAC / CRC: exhaustive
pub fn exhaustive_skeletons(rep: &mut Report, mode: &str, tier: &str, fl: &Flags) {
    let key = key_short("pass");
    let creds = creds_short("pass");
    let k = if tier == "thorough" { 5 } else { 4 };
    let mut rng = Rng::new(7);
    let alphabet = ['o', 'u', 'm', 's', 'f', 'z'];
    let mut idx = vec![0usize; 0];
    loop {
        // build the message for idx
        let mut msg = refmsg::encode(0, 1, 0x0102030405060708090a0b0c, &[]);
        for (p, &i) in idx.iter().enumerate() {
            match alphabet[i] {
                'o' => append_attr(&mut msg, 0x8022, &b"sw"[..(p % 3).min(2)]),
                'u' => append_attr(&mut msg, 0x7777, &[1, 2, 3, 4, 5][..p % 5]),
                'z' => append_attr(&mut msg, 0x0000, &[6, 7][..p % 3 % 2 + (p % 2)]),
                'm' => refmsg::add_integrity(&mut msg, &key, false, 20),
                's' => refmsg::add_integrity(&mut msg, &key, true, [32, 16, 24][p % 3]),
                _ => refmsg::add_fingerprint(&mut msg),
            }
        }
        check_buffer(rep, mode, &msg, &key, &creds, fl, &mut rng);
        // next index vector (odometer over lengths 0..=k)
        let mut pos = idx.len();
        loop {
            if pos == 0 { idx = vec![0; idx.len() + 1]; break; }
            pos -= 1;
            if idx[pos] + 1 < alphabet.len() { idx[pos] += 1; for q in pos + 1..idx.len() { idx[q] = 0; } break; }
        }
        if idx.len() > k { break; }
    }
    rep.notes.push(format!("exhaustive attribute skeletons over {{ordinary, unknown, MI, MI-SHA256, FINGERPRINT, type 0x0000}} up to {} attributes", k));
}

// ------------------------------------------------------------------------------------------------ C01
pub fn c01(tier: &str, seed: u64) -> Report {
    let mut rep = Report::new("c01", "decoding entry points and read-only operations under catch_unwind and a watchdog: grammar-generated + mutated messages, all 19 typed decoders on random raw attributes (lengths 0..=800), 0..=3-byte slices into every decoder, 64 KiB-boundary messages; once more with a TRACE tracing subscriber installed.");
    let fl = Flags { c01: true, c02: false, c04: true, c10: false, c16: false };
    corpus_run(&mut rep, "c01", tier, seed, &fl, 4000, 60000);
    typed_decoders_no_panic(&mut rep, tier, seed);
    boundary_messages(&mut rep);
    // with a tracing subscriber at TRACE: argument expressions of the tracing macros are evaluated
    {
        let sub = tracing_subscriber::fmt().with_max_level(tracing::Level::TRACE).with_writer(std::io::sink).finish();
        let _g = tracing::subscriber::set_default(sub);
        let mut rng = Rng::new(seed ^ 0x7ace);
        let key = key_short("pass");
        let creds = creds_short("pass");
        // with_timeout runs on another thread (no subscriber there): run these cases inline under catch()
        for _ in 0..n_cases(tier, 1000, 10000) {
            let m0 = gen_message(&mut rng, &key);
            let m = if rng.coin() { mutate(&mut rng, &m0) } else { m0 };
            let mm = m.clone();
            let c2 = creds.clone();
            let r = catch(move || {
                if let Ok(msg) = Message::from_bytes(&mm) {
                    let _ = msg.validate_integrity(&c2);
                    let _ = msg.raw_attribute(0x8022.into());
                    let _ = msg.attribute::<Software>();
                    let _ = format!("{} {:?}", msg, msg);
                    if msg.class() == MessageClass::Request { let _ = Message::check_attribute_types(&msg, &[], &[]); }
                }
            });
            rep.case(true, &m);
            if let Err(p) = r { rep.violate("C01:tracing:panic", format!("panic with a TRACE subscriber installed: {} on {}", p, hex_short(&m)), format!("c01:trace:{}", hex(&m))); }
        }
    }
    rep
}

macro_rules! all_typed { ($mac:ident) => { $mac!(Username); $mac!(Realm); $mac!(Nonce); $mac!(Software); $mac!(AlternateDomain); $mac!(ErrorCode); $mac!(UnknownAttributes); $mac!(PasswordAlgorithms); $mac!(MessageIntegritySha256);
    $mac!(Priority); $mac!(UseCandidate); $mac!(IceControlled); $mac!(IceControlling); $mac!(Fingerprint); $mac!(MessageIntegrity); $mac!(Userhash); $mac!(XorMappedAddress); $mac!(AlternateServer); $mac!(PasswordAlgorithm); } }

fn typed_decoders_no_panic(rep: &mut Report, tier: &str, seed: u64) {
    let mut rng = Rng::new(seed ^ 0x19);
    let types: [u16; 19] = [0x0006, 0x0014, 0x0015, 0x8022, 0x8003, 0x0009, 0x000a, 0x8002, 0x001c, 0x0024, 0x0025, 0x8029, 0x802a, 0x8028, 0x0008, 0x001e, 0x0020, 0x8023, 0x001d];
    for i in 0..n_cases(tier, 10000, 200000) {
        let ty = if rng.below(6) == 0 { rng.next() as u16 } else { *rng.pick(&types) };
        let n = match rng.below(6) { 0 => rng.below(4), 1 => rng.range(500, 800), 2 => *rng.pick(&[4u64, 8, 16, 20, 32, 36, 513, 514, 763, 764, 767, 768]), _ => rng.below(40) } as usize;
        let mut v = rng.bytes(n);
        if rng.coin() { for x in v.iter_mut() { *x = b'a' + (*x % 26); } }
        if n >= 4 && rng.coin() { v[1] = rng.range(0, 3) as u8; v[2] = rng.range(0, 7) as u8; v[3] = rng.below(120) as u8; }
        let v2 = v.clone();
        let r = catch(move || {
            let raw = RawAttribute::new(ty.into(), &v2);
            macro_rules! one { ($T:ty) => { if let Ok(a) = <$T>::from_raw(&raw) { let _ = format!("{} {:?}", a, a); let _ = a.to_raw().to_bytes(); } } }
            all_typed!(one);
            let _ = format!("{} {:?}", raw, raw);
        });
        rep.case(n > 0, &[&ty.to_be_bytes()[..], &v[..]].concat());
        if i < 2 { rep.sample(format!("raw attribute type {:#06x} value {}", ty, hex_short(&v))); }
        if let Err(p) = r { rep.violate("C01:typed-decoder:panic", format!("typed decoder / formatter panicked: {} on raw attribute type {:#06x} value {}", p, ty, hex_short(&v)), format!("c01:raw:{:04x}:{}", ty, hex(&v))); }
    }
    // very short slices into every slice decoder
    for n in 0..4usize {
        for fill in [0u8, 0xff, 0x21] {
            let b = vec![fill; n];
            let b2 = b.clone();
            let r = catch(move || { let _ = Message::from_bytes(&b2); let _ = MessageHeader::from_bytes(&b2); let _ = MessageType::from_bytes(&b2); let _ = RawAttribute::from_bytes(&b2); });
            rep.case(false, &b);
            if let Err(p) = r { rep.violate("C01:short-slice:panic", format!("decoder panicked on a {}-byte slice: {}", n, p), format!("c01:short:{}", hex(&b))); }
        }
    }
}

/// messages around the 16-bit length boundary
pub fn boundary_messages(rep: &mut Report) {
    let key = key_short("pass");
    let creds = creds_short("pass");
    let mut rng = Rng::new(3);
    for big in [65504usize, 65500, 65508, 65472, 65488] {
        // header + one raw attribute of `big` bytes + MESSAGE-INTEGRITY (+ FINGERPRINT when it still fits)
        let mut msg = refmsg::encode(0, 1, 5, &[(0x8888, vec![7u8; big])]);
        if msg.len() + 24 - 20 <= 65535 { refmsg::add_integrity(&mut msg, &key, false, 20); }
        if msg.len() + 36 - 20 <= 65535 { refmsg::add_integrity(&mut msg, &key, true, 32); }
        if msg.len() + 8 - 20 <= 65535 { refmsg::add_fingerprint(&mut msg); }
        check_buffer(rep, "c01", &msg, &key, &creds, &Flags::all(), &mut rng);
        let cut = msg.len() - 1;
        check_buffer(rep, "c01", &msg[..cut], &key, &creds, &Flags::all(), &mut rng);
        let mut longer = msg.clone();
        longer.extend_from_slice(&[0; 8]);
        check_buffer(rep, "c01", &longer, &key, &creds, &Flags::all(), &mut rng);
    }
    // 70000-byte garbage and a maximal declared length
    let mut g = vec![0u8; 70000];
    g[4..8].copy_from_slice(&[0x21, 0x12, 0xa4, 0x42]);
    g[2] = 0xff; g[3] = 0xfc;
    check_buffer(rep, "c01", &g, &key, &creds, &Flags::all(), &mut rng);
    g[22] = 0xff; g[23] = 0xff;
    check_buffer(rep, "c01", &g[..65555.min(g.len())], &key, &creds, &Flags::all(), &mut rng);
    rep.notes.push("64 KiB boundary: messages of 65 5xx bytes with integrity attributes starting at offsets >= 65 512".into());
}

// ------------------------------------------------------------------------------------------------ C17
pub fn c17(tier: &str, seed: u64) -> Report {
    let mut rep = Report::new("c17", "well-formed messages (grammar-generated, accepted by the reference) x every cut point 0..len: the real parser must report Truncated{expected, actual=len(p)} with expected = 20 below 20 bytes and = len(m) from 20 bytes on; MessageHeader::from_bytes agrees with the full parse.");
    let mut rng = Rng::new(seed);
    let key = key_short("pass");
    let mut done = 0;
    let want = n_cases(tier, 500, 8000);
    while done < want {
        let m = gen_message(&mut rng, &key);
        if refmsg::decode(&m).is_err() { continue; }
        done += 1;
        if done < 3 { rep.sample(format!("message {} cut at every offset", hex_short(&m))); }
        for k in 0..m.len() {
            let p = &m[..k];
            rep.case(true, p);
            let exp = if k < 20 { 20 } else { m.len() };
            match Message::from_bytes(p) {
                Err(StunParseError::Truncated { expected, actual }) if expected == exp && actual == k => {}
                other => rep.violate("C17:prefix", format!("prefix of {} bytes of a {}-byte message: expected Truncated{{{},{}}}, got {:?}", k, m.len(), exp, k, other.map(|_| "Ok")), format!("c17:msg:{}", hex(p))),
            }
            // header decoder: accepts exactly the >= 20 byte prefixes, same fields
            match MessageHeader::from_bytes(p) {
                Ok(h) => { let full = Message::from_bytes(&m).unwrap(); if k < 20 || h.get_type() != full.get_type() || h.transaction_id() != full.transaction_id() || h.data_length() as usize + 20 != m.len() { rep.violate("C17:header", format!("header decoder disagrees with the full parse on a {}-byte prefix", k), format!("c17:msg:{}", hex(p))); } }
                Err(StunParseError::Truncated { expected: 20, actual }) if k < 20 && actual == k => {}
                Err(e) => rep.violate("C17:header", format!("header decoder on a {}-byte prefix of a well-formed message: {:?}", k, e), format!("c17:msg:{}", hex(p))),
            }
        }
    }
    // messages around the 16-bit length boundary: sampled cut points
    for big in [65504usize, 65515, 65496, 65000] {
        let mut m = refmsg::encode(0, 1, 5, &[(0x8888, vec![9u8; big])]);
        if m.len() + 8 - 20 <= 65535 { refmsg::add_fingerprint(&mut m); }
        if refmsg::decode(&m).is_err() { continue; }
        for k in [0usize, 19, 20, 21, 1000, 65534, 65535, 65536, 65537, m.len() - 4, m.len() - 1] {
            if k >= m.len() { continue; }
            let p = &m[..k];
            rep.case(true, &[&k.to_be_bytes()[..], &big.to_be_bytes()[..]].concat());
            let exp = if k < 20 { 20 } else { m.len() };
            match Message::from_bytes(p) {
                Err(StunParseError::Truncated { expected, actual }) if expected == exp && actual == k => {}
                other => rep.violate("C17:prefix", format!("prefix of {} bytes of a {}-byte message: expected Truncated{{{},{}}}, got {:?}", k, m.len(), exp, k, other.map(|_| "Ok")), format!("c17:big:{}:{}", big, k)),
            }
        }
    }
    // header decoder vs "not non-STUN": random 20..24-byte buffers
    for _ in 0..n_cases(tier, 10000, 100000) {
        let n_ = 20 + rng.below(5) as usize; let mut b = rng.bytes(n_);
        if rng.coin() { b[4..8].copy_from_slice(&[0x21, 0x12, 0xa4, 0x42]); }
        if rng.coin() { b[0] &= 0x3f; }
        let ok = b[0] & 0xc0 == 0 && b[4..8] == [0x21, 0x12, 0xa4, 0x42];
        rep.case(ok, &b);
        let h = MessageHeader::from_bytes(&b);
        let full_notstun = matches!(Message::from_bytes(&b), Err(StunParseError::NotStun));
        if h.is_ok() != ok || h.is_ok() == full_notstun { rep.violate("C17:header", format!("header decoder accepts={} but buffer is_stun={} / full parser NotStun={}: {}", h.is_ok(), ok, full_notstun, hex(&b)), format!("c17:msg:{}", hex(&b))); }
    }
    rep
}

// ------------------------------------------------------------------------------------------------ C09
pub fn c09(tier: &str, seed: u64) -> Report {
    let mut rep = Report::new("c09", "messages with a FINGERPRINT (reference-built and builder-built) x all single-bit flips, all single-byte substitutions at sampled positions and bursts up to 32 bits: acceptance by the real parser must equal acceptance by the reference decoder (which re-checks the CRC whenever a FINGERPRINT is still in place); builder FINGERPRINT == bit-serial CRC-32/ISO-HDLC ^ 0x5354554e; Fingerprint::compute vs bit-serial CRC.");
    let mut rng = Rng::new(seed);
    let key = key_short("pass");
    // Fingerprint::compute is CRC-32/ISO-HDLC
    for n in 0..n_cases(tier, 600, 5000) as usize {
        let d = rng.bytes(n % 257);
        rep.case(true, &d);
        if Fingerprint::compute(&d) != crc32(&d).to_be_bytes() { rep.violate("C09:crc", format!("Fingerprint::compute differs from CRC-32/ISO-HDLC on {}", hex_short(&d)), format!("c09:crc:{}", hex(&d))); }
    }
    // body-length sweep: the length field rewritten for the CRC must carry into its high byte (bodies of 248..=264, 504..=520, ...
    // bytes before the FINGERPRINT) - every multiple of four up to 1536, and the neighbourhood of every multiple of 256 up to 16 KiB
    {
        let mut lens: Vec<usize> = (0..=1536usize).step_by(4).collect();
        let top = if tier == "thorough" { 65024 } else { 16384 };
        let mut k = 2048; while k <= top { for d in [16usize, 12, 8, 4] { lens.push(k - d); } lens.push(k); lens.push(k + 4); k += 256; }
        for body in lens {
            if body < 4 || body + 8 > 65535 { continue; }
            let val = rng.bytes(body - 4);
            let r = catch(std::panic::AssertUnwindSafe(|| {
                let mut b = Message::builder(MessageType::from_class_method(MessageClass::Request, 1), (rng.next() as u128).into());
                b.add_raw_attribute(RawAttribute::new(0x8888.into(), &val)).unwrap();
                b.add_fingerprint().map(|_| b.build())
            }));
            rep.case(true, &(body as u64).to_be_bytes());
            match r {
                Err(p) => rep.violate("C09:builder-fingerprint-panic", format!("add_fingerprint panics on a builder whose body is {} bytes: {}", body, p), format!("c09:rerun")),
                Ok(Err(e)) => rep.violate("C09:builder-fingerprint-refused", format!("add_fingerprint refused on a fresh builder with a {}-byte body: {:?}", body, e), format!("c09:rerun")),
                Ok(Ok(m)) => {
                    let o = m.len() - 8;
                    if m.len() != 20 + body + 8 || m[o + 4..] != refmsg::fingerprint_value(&m[..o], m.len()) || Message::from_bytes(&m).is_err() {
                        rep.violate("C09:builder-fingerprint", format!("builder FINGERPRINT over a {}-byte body is not crc32(prefix with final length) ^ 0x5354554e (parser: {:?}) in {}", body, Message::from_bytes(&m).err(), hex_short(&m)), format!("c09:msg:{}", hex(&m)));
                    }
                }
            }
        }
    }
    for i in 0..n_cases(tier, 60, 600) {
        // builder-built message
        let mut b = Message::builder(MessageType::from_class_method(MessageClass::Request, 1), (rng.next() as u128).into());
        let sw = Software::new("bx").unwrap();
        let n_ = rng.below(9) as usize; let val = rng.bytes(n_);
        if rng.coin() { b.add_attribute(&sw).unwrap(); }
        b.add_raw_attribute(RawAttribute::new(0x8888.into(), &val)).unwrap();
        if rng.coin() { b.add_message_integrity(&creds_short("pass"), IntegrityAlgorithm::Sha1).unwrap(); }
        b.add_fingerprint().unwrap();
        let m = b.build();
        let mut reused = vec![0xEEu8; m.len()];
        let _ = b.write_into(&mut reused);
        if reused != m || Message::from_bytes(&reused).is_err() { rep.violate("C09:builder-fingerprint-reused-buffer", format!("the fingerprinted message written into a reused buffer ({}) is not the built message / is refused: {:?}", hex_short(&reused), Message::from_bytes(&reused).err()), format!("c09:msg:{}", hex(&reused))); }
        let o = m.len() - 8;
        if m[o + 4..] != refmsg::fingerprint_value(&m[..o], m.len()) { rep.violate("C09:builder-fingerprint", format!("builder FINGERPRINT is not crc32(prefix with final length) ^ 0x5354554e in {}", hex_short(&m)), format!("c09:msg:{}", hex(&m))); }
        if i < 2 { rep.sample(format!("fingerprinted message {}", hex_short(&m))); }
        let mut muts: Vec<Vec<u8>> = vec![];
        for bit in 0..m.len() * 8 { let mut x = m.clone(); x[bit / 8] ^= 1 << (bit % 8); muts.push(x); }
        for _ in 0..200 { let mut x = m.clone(); let p = rng.below(m.len() as u64) as usize; x[p] = rng.byte(); muts.push(x); }
        for _ in 0..200 { // bursts up to 32 bits
            let mut x = m.clone();
            let start = rng.below((m.len() * 8) as u64) as usize;
            let len = rng.range(2, 32) as usize;
            for bit in start..(start + len).min(m.len() * 8) { if bit == start || bit == start + len - 1 || rng.coin() { x[bit / 8] ^= 1 << (7 - bit % 8); } }
            muts.push(x);
        }
        for x in muts {
            if x == m { continue; }
            rep.case(true, &x);
            let real = Message::from_bytes(&x).is_ok();
            let reference = refmsg::decode(&x).is_ok();
            if real != reference { rep.violate(if real { "C09:corrupted-accepted" } else { "C09:refused" }, format!("corrupted fingerprinted message: parser accepts={} reference accepts={}: {}", real, reference, hex_short(&x)), format!("c09:msg:{}", hex(&x))); }
        }
        let _ = &key;
    }
    rep
}

// ------------------------------------------------------------------------------------------------ C16
pub fn check_policing(rep: &mut Report, mode: &str, b: &[u8], r: &RefMsg, present: &[u16], supported: &[u16], required: &[u16], resp: Option<Vec<u8>>) {
    let wit = format!("{}:police:{}:{}:{}", mode, hex(b), supported.iter().map(|t| format!("{:04x}", t)).collect::<Vec<_>>().join(","), required.iter().map(|t| format!("{:04x}", t)).collect::<Vec<_>>().join(","));
    let unknown: Vec<u16> = present.iter().filter(|&&t| t < 0x8000 && !supported.contains(&t)).cloned().collect();
    let missing = required.iter().any(|t| !present.contains(t));
    let expect_code: Option<u16> = if !unknown.is_empty() { Some(420) } else if missing { Some(400) } else { None };
    match (expect_code, resp) {
        (None, None) => {}
        (None, Some(_)) => rep.violate("C16:verdict", format!("policing produced an error response although nothing is unknown or missing (present {:x?} supported {:x?} required {:x?})", present, supported, required), wit),
        (Some(c), None) => rep.violate("C16:verdict", format!("policing produced nothing, expected {} (present {:x?} supported {:x?} required {:x?})", c, present, supported, required), wit),
        (Some(c), Some(bytes)) => {
            match refmsg::decode(&bytes) {
                Err(e) => rep.violate("C16:response-parse", format!("error response does not parse back: {:?}", e), wit),
                Ok(rr) => {
                    let code = rr.attrs.iter().find(|a| a.ty == 0x0009).map(|a| (bytes[a.off + 2] & 7) as u16 * 100 + bytes[a.off + 3] as u16);
                    let ua: Option<Vec<u16>> = rr.attrs.iter().find(|a| a.ty == 0x000a).map(|a| (0..a.len / 2).map(|i| refmsg::be16(&bytes, a.off + 2 * i)).collect());
                    if rr.class != 3 || rr.method != r.method || rr.tid != r.tid || code != Some(c) || Message::from_bytes(&bytes).is_err() {
                        rep.violate("C16:response", format!("error response has class {} method {:#x} tid {:#x} code {:?}; expected class 3, the request's method/tid and code {}", rr.class, rr.method, rr.tid, code, c), wit);
                    } else if c == 420 && ua.as_ref() != Some(&unknown) {
                        rep.violate("C16:unknown-list", format!("UNKNOWN-ATTRIBUTES lists {:x?}, expected exactly {:x?} in message order", ua, unknown), wit);
                    } else if c == 400 && ua.is_some() {
                        rep.violate("C16:response", "400 response carries UNKNOWN-ATTRIBUTES".into(), wit);
                    }
                }
            }
        }
    }
}

pub fn c16(tier: &str, seed: u64) -> Report {
    let mut rep = Report::new("c16", "request messages (grammar-generated, accepted) x random supported/required subsets of the types present and absent (incl. 0x7fff / 0x8000): verdict, code, UNKNOWN-ATTRIBUTES list and order, class/method/transaction id, parse-back vs the RFC 8489 s6.3.1 oracle; comprehension_required over all 65536 types.");
    for t in 0..=0xffffu16 {
        if AttributeType::new(t).comprehension_required() != (t < 0x8000) { rep.violate("C16:comprehension", format!("comprehension_required({:#06x}) wrong", t), format!("c16:type:{:04x}", t)); }
    }
    rep.evaluations += 65536;
    let mut rng = Rng::new(seed);
    let key = key_short("pass");
    let creds = creds_short("pass");
    let fl = Flags { c01: false, c02: false, c04: false, c10: false, c16: true };
    let mut done = 0;
    while done < n_cases(tier, 6000, 100000) {
        // requests only; add boundary types
        let n = rng.below(5) as usize;
        let mut attrs = vec![];
        let mut used = vec![];
        for _ in 0..n {
            let ty = *rng.pick(&[0x0006u16, 0x8022, 0x0024, 0x7777, 0x8888, 0x7fff, 0x8000, 0x0001, 0x0020, 0x7ffe]);
            if used.contains(&ty) { continue; }
            used.push(ty);
            let n_ = rng.below(6) as usize; attrs.push((ty, rng.bytes(n_)));
        }
        let mut m = refmsg::encode(0, *rng.pick(&[1u16, 0xfff, 3]), rng.next() as u128, &attrs);
        match rng.below(4) { 0 => refmsg::add_integrity(&mut m, &key, false, 20), 1 => { refmsg::add_integrity(&mut m, &key, false, 20); refmsg::add_fingerprint(&mut m) } 2 => refmsg::add_fingerprint(&mut m), _ => {} }
        done += 1;
        if done < 3 { rep.sample(format!("request {}", hex_short(&m))); }
        check_buffer(&mut rep, "c16", &m, &key, &creds, &fl, &mut rng);
    }
    rep
}

// ------------------------------------------------------------------------------------------------ C04
pub fn c04(tier: &str, seed: u64) -> Report {
    let mut rep = Report::new("c04", "messages sealed by the real builder and by the reference HMAC (SHA-1, SHA-256 incl. truncated 16..32, both) x {short-term, long-term} credentials over ASCII and multi-byte UTF-8 strings x single-bit flips / byte substitutions up to and including the integrity attribute x alternative keys; verdicts vs independent HMAC-SHA1/SHA256/MD5.");
    let mut rng = Rng::new(seed);
    let strs = ["pass", "p", "", "пароль", "密碼🔑", "a:b", "with space", "0123456789012345678901234567890123456789012345678901234567890123456789"];
    // body-length sweep (the length field rewritten for the HMAC input must carry into its high byte): every multiple of four up
    // to 1280 and the neighbourhood of every multiple of 256 up to 8 KiB, SHA-1 / SHA-256 / both
    {
        let mut lens: Vec<usize> = (0..=1280usize).step_by(4).collect();
        let top = if tier == "thorough" { 65024 } else { 8192 };
        let mut k = 1536; while k <= top { for d in [40usize, 36, 28, 24, 20, 16, 12, 8, 4] { lens.push(k - d); } lens.push(k); k += 256; }
        let (creds, key) = (creds_short("pass"), key_short("pass"));
        for (j, body) in lens.into_iter().enumerate() {
            if body < 4 || body + 24 + 36 + 8 > 65535 { continue; }
            let val = rng.bytes(body - 4);
            let which = j % 3;
            let r = catch(std::panic::AssertUnwindSafe(|| {
                let mut b = Message::builder(MessageType::from_class_method(MessageClass::Request, 1), (rng.next() as u128).into());
                b.add_raw_attribute(RawAttribute::new(0x8888.into(), &val)).unwrap();
                if which != 1 { b.add_message_integrity(&creds, IntegrityAlgorithm::Sha1).unwrap(); }
                if which != 0 { b.add_message_integrity(&creds, IntegrityAlgorithm::Sha256).unwrap(); }
                b.build()
            }));
            rep.case(true, &(body as u64).to_be_bytes());
            match r {
                Err(p) => rep.violate("C04:builder-seal-panic", format!("add_message_integrity panics on a builder whose body is {} bytes: {}", body, p), "c04:rerun".to_string()),
                Ok(m) => match refmsg::decode(&m) {
                    Ok(rm) => {
                        let (_, all_ok, _, _) = integrity_facts(&m, &rm, &key);
                        if !all_ok { rep.violate("C04:builder-mac", format!("the builder's integrity value over a {}-byte body differs from the independent HMAC in {}", body, hex_short(&m)), format!("c04:seal:{}:{}", hex(&key), hex(&m))); }
                    }
                    Err(e) => rep.violate("C04:builder-mac", format!("the sealed message over a {}-byte body is not well-formed ({:?}): {}", body, e, hex_short(&m)), format!("c04:seal:{}:{}", hex(&key), hex(&m))),
                },
            }
        }
    }
    for i in 0..n_cases(tier, 200, 3000) {
        let long = rng.coin();
        let (u, p, r) = (*rng.pick(&strs), *rng.pick(&strs), *rng.pick(&strs));
        let (creds, key) = if long { (creds_long(u, p, r), key_long(u, p, r)) } else { (creds_short(p), key_short(p)) };
        // builder-sealed
        let mut b = Message::builder(MessageType::from_class_method(*rng.pick(&[MessageClass::Request, MessageClass::Success, MessageClass::Error, MessageClass::Indication]), 1), (rng.next() as u128).into());
        let n_ = rng.below(7) as usize; let val = rng.bytes(n_);
        b.add_raw_attribute(RawAttribute::new(0x8888.into(), &val)).unwrap();
        let which = rng.below(3);
        if which != 1 { b.add_message_integrity(&creds, IntegrityAlgorithm::Sha1).unwrap(); }
        if which != 0 { b.add_message_integrity(&creds, IntegrityAlgorithm::Sha256).unwrap(); }
        if rng.coin() { b.add_fingerprint().unwrap(); }
        let m = b.build();
        if i < 2 { rep.sample(format!("sealed ({}) {}", if long { "long-term" } else { "short-term" }, hex_short(&m))); }
        let fl = Flags { c01: false, c02: false, c04: true, c10: false, c16: false };
        check_buffer(&mut rep, "c04", &m, &key, &creds, &fl, &mut rng);
        // the builder's MAC equals the reference MAC (HMAC input and keys of RFC 8489 s14.5/14.6)
        if let Ok(rm) = refmsg::decode(&m) {
            let (_, all_ok, _, _) = integrity_facts(&m, &rm, &key);
            if !all_ok { rep.violate("C04:builder-mac", format!("the builder's integrity value differs from the independent HMAC for key {} in {}", hex(&key), hex_short(&m)), format!("c04:seal:{}:{}", hex(&key), hex(&m))); }
            // tamper: every bit up to and including the first integrity attribute
            let first = rm.attrs.iter().find(|a| a.ty == MI || a.ty == MI256).unwrap();
            let end = first.off + first.len;
            let total_bits = end * 8;
            let step = if tier == "thorough" { 1 } else { 1 + total_bits / 160 };
            let mut bit = rng.below(step as u64) as usize;
            while bit < total_bits {
                let mut x = m.clone();
                x[bit / 8] ^= 1 << (bit % 8);
                rep.case(true, &x);
                let xx = x.clone(); let c2 = creds.clone();
                let ok = catch(move || match Message::from_bytes(&xx) { Ok(msg) => msg.validate_integrity(&c2).is_ok(), Err(_) => false }).unwrap_or(false);
                // the length field bytes 2..4 are excluded from the HMAC input by construction: flipping them makes the parser refuse
                if ok { rep.violate("C04:tamper-accepted", format!("bit {} flipped before the end of the integrity attribute, message still parses and validates: {}", bit, hex_short(&x)), format!("c04:tamper:{}:{}", hex(&key), hex(&x))); }
                bit += step;
            }
            // another key
            let other = creds_short("other-key");
            if Message::from_bytes(&m).unwrap().validate_integrity(&other).is_ok() && key != b"other-key" { rep.violate("C04:other-key", format!("validates under another key: {}", hex_short(&m)), format!("c04:msg:{}", hex(&m))); }
        }
        // reference-sealed with truncated SHA-256
        let mut m2 = refmsg::encode(2, 1, rng.next() as u128, &[(0x8022, b"x".to_vec())]);
        if rng.coin() { refmsg::add_integrity(&mut m2, &key, false, 20); }
        refmsg::add_integrity(&mut m2, &key, true, *rng.pick(&[16usize, 20, 24, 28, 32]));
        check_buffer(&mut rep, "c04", &m2, &key, &creds, &fl, &mut rng);
    }
    // every combination of {absent, correct, wrong MAC} for MESSAGE-INTEGRITY and MESSAGE-INTEGRITY-SHA256 (both orders), with/without FINGERPRINT
    {
        let key = key_short("pass");
        let creds = creds_short("pass");
        let fl = Flags { c01: false, c02: false, c04: true, c10: false, c16: false };
        for a in 0..3 { for b in 0..3 { for order in 0..2 { for fp in 0..2 { for trunc in [32usize, 16, 24] {
            let mut m = refmsg::encode(2, 1, 0x77, &[(0x8022, b"combo".to_vec())]);
            let mut add = |m: &mut Vec<u8>, sha256: bool, st: i32| { if st == 0 { return; } refmsg::add_integrity(m, &key, sha256, if sha256 { trunc } else { 20 }); if st == 2 { let l = m.len(); m[l - 2] ^= 0x04; } };
            if order == 0 { add(&mut m, false, a); add(&mut m, true, b); } else { add(&mut m, true, b); add(&mut m, false, a); }
            if fp == 1 { refmsg::add_fingerprint(&mut m); }
            check_buffer(&mut rep, "c04", &m, &key, &creds, &fl, &mut rng);
        } } } } }
    }
    // no integrity attribute => MissingAttribute
    let m = refmsg::encode(0, 1, 9, &[]);
    match Message::from_bytes(&m).unwrap().validate_integrity(&creds_short("x")) { Err(StunParseError::MissingAttribute(_)) => {}, o => rep.violate("C04:missing-not-reported", format!("message without integrity: {:?}", o), format!("c04:msg:{}", hex(&m))) }
    rep
}
