//! Independent reference implementations (written for this harness, no dependency on the crates the
//! library uses): CRC-32/ISO-HDLC bit-serial, MD5, SHA-1, SHA-256, HMAC (RFC 2104).
//! `selftest()` pins them to published test vectors; setup additionally compares them with python hashlib/zlib.

pub fn crc32(data: &[u8]) -> u32 {
    // CRC-32/ISO-HDLC: poly 0x04C11DB7 reflected (0xEDB88320), init 0xFFFFFFFF, xorout 0xFFFFFFFF, bit by bit
    let mut crc: u32 = 0xFFFF_FFFF;
    for &b in data {
        crc ^= b as u32;
        for _ in 0..8 {
            crc = if crc & 1 == 1 { (crc >> 1) ^ 0xEDB8_8320 } else { crc >> 1 };
        }
    }
    !crc
}

pub fn md5(msg: &[u8]) -> [u8; 16] {
    const S: [u32; 64] = [7, 12, 17, 22, 7, 12, 17, 22, 7, 12, 17, 22, 7, 12, 17, 22, 5, 9, 14, 20, 5, 9, 14, 20, 5, 9, 14, 20, 5, 9, 14, 20,
        4, 11, 16, 23, 4, 11, 16, 23, 4, 11, 16, 23, 4, 11, 16, 23, 6, 10, 15, 21, 6, 10, 15, 21, 6, 10, 15, 21, 6, 10, 15, 21];
    let k: Vec<u32> = (0..64).map(|i| ((i as f64 + 1.0).sin().abs() * 4294967296.0) as u32).collect();
    let (mut a0, mut b0, mut c0, mut d0) = (0x67452301u32, 0xefcdab89u32, 0x98badcfeu32, 0x10325476u32);
    let mut m = msg.to_vec();
    let bitlen = (msg.len() as u64).wrapping_mul(8);
    m.push(0x80);
    while m.len() % 64 != 56 { m.push(0); }
    m.extend_from_slice(&bitlen.to_le_bytes());
    for chunk in m.chunks(64) {
        let w: Vec<u32> = (0..16).map(|i| u32::from_le_bytes([chunk[4 * i], chunk[4 * i + 1], chunk[4 * i + 2], chunk[4 * i + 3]])).collect();
        let (mut a, mut b, mut c, mut d) = (a0, b0, c0, d0);
        for i in 0..64 {
            let (mut f, g);
            if i < 16 { f = (b & c) | (!b & d); g = i; }
            else if i < 32 { f = (d & b) | (!d & c); g = (5 * i + 1) % 16; }
            else if i < 48 { f = b ^ c ^ d; g = (3 * i + 5) % 16; }
            else { f = c ^ (b | !d); g = (7 * i) % 16; }
            f = f.wrapping_add(a).wrapping_add(k[i]).wrapping_add(w[g]);
            a = d; d = c; c = b;
            b = b.wrapping_add(f.rotate_left(S[i]));
        }
        a0 = a0.wrapping_add(a); b0 = b0.wrapping_add(b); c0 = c0.wrapping_add(c); d0 = d0.wrapping_add(d);
    }
    let mut out = [0u8; 16];
    out[0..4].copy_from_slice(&a0.to_le_bytes());
    out[4..8].copy_from_slice(&b0.to_le_bytes());
    out[8..12].copy_from_slice(&c0.to_le_bytes());
    out[12..16].copy_from_slice(&d0.to_le_bytes());
    out
}

pub fn sha1(msg: &[u8]) -> [u8; 20] {
    let mut h: [u32; 5] = [0x67452301, 0xEFCDAB89, 0x98BADCFE, 0x10325476, 0xC3D2E1F0];
    let mut m = msg.to_vec();
    let bitlen = (msg.len() as u64).wrapping_mul(8);
    m.push(0x80);
    while m.len() % 64 != 56 { m.push(0); }
    m.extend_from_slice(&bitlen.to_be_bytes());
    for chunk in m.chunks(64) {
        let mut w = [0u32; 80];
        for i in 0..16 { w[i] = u32::from_be_bytes([chunk[4 * i], chunk[4 * i + 1], chunk[4 * i + 2], chunk[4 * i + 3]]); }
        for i in 16..80 { w[i] = (w[i - 3] ^ w[i - 8] ^ w[i - 14] ^ w[i - 16]).rotate_left(1); }
        let (mut a, mut b, mut c, mut d, mut e) = (h[0], h[1], h[2], h[3], h[4]);
        for i in 0..80 {
            let (f, k) = if i < 20 { ((b & c) | (!b & d), 0x5A827999u32) } else if i < 40 { (b ^ c ^ d, 0x6ED9EBA1) } else if i < 60 { ((b & c) | (b & d) | (c & d), 0x8F1BBCDC) } else { (b ^ c ^ d, 0xCA62C1D6) };
            let t = a.rotate_left(5).wrapping_add(f).wrapping_add(e).wrapping_add(k).wrapping_add(w[i]);
            e = d; d = c; c = b.rotate_left(30); b = a; a = t;
        }
        h[0] = h[0].wrapping_add(a); h[1] = h[1].wrapping_add(b); h[2] = h[2].wrapping_add(c); h[3] = h[3].wrapping_add(d); h[4] = h[4].wrapping_add(e);
    }
    let mut out = [0u8; 20];
    for i in 0..5 { out[4 * i..4 * i + 4].copy_from_slice(&h[i].to_be_bytes()); }
    out
}

pub fn sha256(msg: &[u8]) -> [u8; 32] {
    const K: [u32; 64] = [
        0x428a2f98, 0x71374491, 0xb5c0fbcf, 0xe9b5dba5, 0x3956c25b, 0x59f111f1, 0x923f82a4, 0xab1c5ed5, 0xd807aa98, 0x12835b01, 0x243185be, 0x550c7dc3, 0x72be5d74, 0x80deb1fe, 0x9bdc06a7, 0xc19bf174,
        0xe49b69c1, 0xefbe4786, 0x0fc19dc6, 0x240ca1cc, 0x2de92c6f, 0x4a7484aa, 0x5cb0a9dc, 0x76f988da, 0x983e5152, 0xa831c66d, 0xb00327c8, 0xbf597fc7, 0xc6e00bf3, 0xd5a79147, 0x06ca6351, 0x14292967,
        0x27b70a85, 0x2e1b2138, 0x4d2c6dfc, 0x53380d13, 0x650a7354, 0x766a0abb, 0x81c2c92e, 0x92722c85, 0xa2bfe8a1, 0xa81a664b, 0xc24b8b70, 0xc76c51a3, 0xd192e819, 0xd6990624, 0xf40e3585, 0x106aa070,
        0x19a4c116, 0x1e376c08, 0x2748774c, 0x34b0bcb5, 0x391c0cb3, 0x4ed8aa4a, 0x5b9cca4f, 0x682e6ff3, 0x748f82ee, 0x78a5636f, 0x84c87814, 0x8cc70208, 0x90befffa, 0xa4506ceb, 0xbef9a3f7, 0xc67178f2];
    let mut h: [u32; 8] = [0x6a09e667, 0xbb67ae85, 0x3c6ef372, 0xa54ff53a, 0x510e527f, 0x9b05688c, 0x1f83d9ab, 0x5be0cd19];
    let mut m = msg.to_vec();
    let bitlen = (msg.len() as u64).wrapping_mul(8);
    m.push(0x80);
    while m.len() % 64 != 56 { m.push(0); }
    m.extend_from_slice(&bitlen.to_be_bytes());
    for chunk in m.chunks(64) {
        let mut w = [0u32; 64];
        for i in 0..16 { w[i] = u32::from_be_bytes([chunk[4 * i], chunk[4 * i + 1], chunk[4 * i + 2], chunk[4 * i + 3]]); }
        for i in 16..64 {
            let s0 = w[i - 15].rotate_right(7) ^ w[i - 15].rotate_right(18) ^ (w[i - 15] >> 3);
            let s1 = w[i - 2].rotate_right(17) ^ w[i - 2].rotate_right(19) ^ (w[i - 2] >> 10);
            w[i] = w[i - 16].wrapping_add(s0).wrapping_add(w[i - 7]).wrapping_add(s1);
        }
        let mut v = h;
        for i in 0..64 {
            let s1 = v[4].rotate_right(6) ^ v[4].rotate_right(11) ^ v[4].rotate_right(25);
            let ch = (v[4] & v[5]) ^ (!v[4] & v[6]);
            let t1 = v[7].wrapping_add(s1).wrapping_add(ch).wrapping_add(K[i]).wrapping_add(w[i]);
            let s0 = v[0].rotate_right(2) ^ v[0].rotate_right(13) ^ v[0].rotate_right(22);
            let maj = (v[0] & v[1]) ^ (v[0] & v[2]) ^ (v[1] & v[2]);
            let t2 = s0.wrapping_add(maj);
            v[7] = v[6]; v[6] = v[5]; v[5] = v[4]; v[4] = v[3].wrapping_add(t1); v[3] = v[2]; v[2] = v[1]; v[1] = v[0]; v[0] = t1.wrapping_add(t2);
        }
        for i in 0..8 { h[i] = h[i].wrapping_add(v[i]); }
    }
    let mut out = [0u8; 32];
    for i in 0..8 { out[4 * i..4 * i + 4].copy_from_slice(&h[i].to_be_bytes()); }
    out
}

fn hmac_generic(key: &[u8], msg: &[u8], hash: &dyn Fn(&[u8]) -> Vec<u8>) -> Vec<u8> {
    let mut k = if key.len() > 64 { hash(key) } else { key.to_vec() };
    k.resize(64, 0);
    let mut inner: Vec<u8> = k.iter().map(|b| b ^ 0x36).collect();
    inner.extend_from_slice(msg);
    let ih = hash(&inner);
    let mut outer: Vec<u8> = k.iter().map(|b| b ^ 0x5c).collect();
    outer.extend_from_slice(&ih);
    hash(&outer)
}
pub fn hmac_sha1(key: &[u8], msg: &[u8]) -> Vec<u8> { hmac_generic(key, msg, &|d| sha1(d).to_vec()) }
pub fn hmac_sha256(key: &[u8], msg: &[u8]) -> Vec<u8> { hmac_generic(key, msg, &|d| sha256(d).to_vec()) }

pub fn selftest() -> Result<(), String> {
    let h = crate::util::hex;
    if crc32(b"123456789") != 0xCBF43926 { return Err("crc32".into()); }
    if h(&md5(b"abc")) != "900150983cd24fb0d6963f7d28e17f72" { return Err("md5".into()); }
    if h(&md5(b"")) != "d41d8cd98f00b204e9800998ecf8427e" { return Err("md5 empty".into()); }
    if h(&sha1(b"abc")) != "a9993e364706816aba3e25717850c26c9cd0d89d" { return Err("sha1".into()); }
    if h(&sha256(b"abc")) != "ba7816bf8f01cfea414140de5dae2223b00361a396177a9cb410ff61f20015ad" { return Err("sha256".into()); }
    // RFC 2202 / RFC 4231 test case 2
    if h(&hmac_sha1(b"Jefe", b"what do ya want for nothing?")) != "effcdf6ae5eb2fa2d27416d5f184df9c259a7c79" { return Err("hmac-sha1".into()); }
    if h(&hmac_sha256(b"Jefe", b"what do ya want for nothing?")) != "5bdcc146bf60754e6a042426089575c75a003f089d2739839dec58b964ec3843" { return Err("hmac-sha256".into()); }
    // long message / long key paths
    let long = vec![0x61u8; 1000];
    if h(&sha1(&long)) != "291e9a6c66994949b57ba5e650361e98fc36b1ba" { return Err("sha1 long".into()); }
    Ok(())
}
