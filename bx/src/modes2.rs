//! bounded stand-in modes for attributes and the builder (C03 C08 C11 C12 C13 C14 C19)
use crate::msgcheck::*;
use crate::modes::n_cases;
use crate::refmsg::{self, FP, MI, MI256};
use crate::util::*;
use std::net::{IpAddr, Ipv4Addr, Ipv6Addr, SocketAddr};
use stun_types::attribute::*;
use stun_types::message::*;

/// An attribute value described independently of the library, with its RFC encoding
#[derive(Clone, Debug)]
pub enum ASpec {
    Username(String), Realm(String), Nonce(String), Software(String), AltDomain(String),
    ErrorCode(u16, String), UnknownAttrs(Vec<u16>), PwAlgos(Vec<u8>), PwAlgo(u8),
    Priority(u32), UseCandidate, IceControlled(u64), IceControlling(u64), Userhash([u8; 32]),
    XorMapped(SocketAddr, u128), AltServer(SocketAddr), Raw(u16, Vec<u8>),
}

fn addr_bytes(a: &SocketAddr) -> Vec<u8> {
    let mut v = vec![0u8, if a.is_ipv4() { 1 } else { 2 }];
    v.extend_from_slice(&a.port().to_be_bytes());
    match a.ip() { IpAddr::V4(i) => v.extend_from_slice(&i.octets()), IpAddr::V6(i) => v.extend_from_slice(&i.octets()) }
    v
}

impl ASpec {
    /// RFC wire encoding: (type code, value bytes) - written from RFC 8489 s14 / RFC 8445 s7.1
    pub fn encode(&self) -> (u16, Vec<u8>) {
        match self {
            ASpec::Username(s) => (0x0006, s.as_bytes().to_vec()),
            ASpec::Realm(s) => (0x0014, s.as_bytes().to_vec()),
            ASpec::Nonce(s) => (0x0015, s.as_bytes().to_vec()),
            ASpec::Software(s) => (0x8022, s.as_bytes().to_vec()),
            ASpec::AltDomain(s) => (0x8003, s.as_bytes().to_vec()),
            ASpec::ErrorCode(c, r) => { let mut v = vec![0, 0, (c / 100) as u8, (c % 100) as u8]; v.extend_from_slice(r.as_bytes()); (0x0009, v) }
            ASpec::UnknownAttrs(l) => (0x000a, l.iter().flat_map(|t| t.to_be_bytes()).collect()),
            ASpec::PwAlgos(l) => (0x8002, l.iter().flat_map(|a| vec![0, *a, 0, 0]).collect()),
            ASpec::PwAlgo(a) => (0x001d, vec![0, *a, 0, 0]),
            ASpec::Priority(p) => (0x0024, p.to_be_bytes().to_vec()),
            ASpec::UseCandidate => (0x0025, vec![]),
            ASpec::IceControlled(t) => (0x8029, t.to_be_bytes().to_vec()),
            ASpec::IceControlling(t) => (0x802a, t.to_be_bytes().to_vec()),
            ASpec::Userhash(h) => (0x001e, h.to_vec()),
            ASpec::XorMapped(a, tid) => {
                let mut v = addr_bytes(a);
                let mut mask = vec![0x21u8, 0x12, 0xa4, 0x42];
                mask.extend_from_slice(&tid.to_be_bytes()[4..16]);
                v[2] ^= 0x21; v[3] ^= 0x12;
                for i in 4..v.len() { v[i] ^= mask[i - 4]; }
                (0x0020, v)
            }
            ASpec::AltServer(a) => (0x8023, addr_bytes(a)),
            ASpec::Raw(t, v) => (*t, v.clone()),
        }
    }
    pub fn to_lib(&self) -> Box<dyn AttributeWrite> {
        let pa = |a: &u8| if *a == 1 { PasswordAlgorithmValue::MD5 } else { PasswordAlgorithmValue::SHA256 };
        match self {
            ASpec::Username(s) => Box::new(Username::new(s).unwrap()),
            ASpec::Realm(s) => Box::new(Realm::new(s).unwrap()),
            ASpec::Nonce(s) => Box::new(Nonce::new(s).unwrap()),
            ASpec::Software(s) => Box::new(Software::new(s).unwrap()),
            ASpec::AltDomain(s) => Box::new(AlternateDomain::new(s)),
            ASpec::ErrorCode(c, r) => Box::new(ErrorCode::new(*c, r).unwrap()),
            ASpec::UnknownAttrs(l) => Box::new(UnknownAttributes::new(&l.iter().map(|&t| t.into()).collect::<Vec<AttributeType>>())),
            ASpec::PwAlgos(l) => Box::new(PasswordAlgorithms::new(&l.iter().map(pa).collect::<Vec<_>>())),
            ASpec::PwAlgo(a) => Box::new(PasswordAlgorithm::new(pa(a))),
            ASpec::Priority(p) => Box::new(Priority::new(*p)),
            ASpec::UseCandidate => Box::new(UseCandidate::new()),
            ASpec::IceControlled(t) => Box::new(IceControlled::new(*t)),
            ASpec::IceControlling(t) => Box::new(IceControlling::new(*t)),
            ASpec::Userhash(h) => Box::new(Userhash::new(*h)),
            ASpec::XorMapped(a, tid) => Box::new(XorMappedAddress::new(*a, (*tid).into())),
            ASpec::AltServer(a) => Box::new(AlternateServer::new(*a)),
            ASpec::Raw(t, v) => Box::new(RawAttribute::new((*t).into(), v).into_owned()),
        }
    }
    /// decode `raw` with the library's typed decoder for this kind and compare with self
    pub fn decodes_back(&self, raw: &RawAttribute) -> Result<bool, String> {
        macro_rules! dec { ($T:ty, $chk:expr) => { match <$T>::from_raw(raw) { Ok(v) => { let f: &dyn Fn(&$T) -> bool = &$chk; Ok(f(&v)) } Err(e) => Err(format!("{:?}", e)) } } }
        match self {
            ASpec::Username(s) => dec!(Username, |v| v.username() == s),
            ASpec::Realm(s) => dec!(Realm, |v| v.realm() == s),
            ASpec::Nonce(s) => dec!(Nonce, |v| v.nonce() == s),
            ASpec::Software(s) => dec!(Software, |v| v.software() == s),
            ASpec::AltDomain(s) => dec!(AlternateDomain, |v| v.domain() == s),
            ASpec::ErrorCode(c, r) => dec!(ErrorCode, |v| v.code() == *c && v.reason() == r),
            ASpec::UnknownAttrs(l) => dec!(UnknownAttributes, |v| l.iter().all(|&t| v.has_attribute(t.into())) && v.length() as usize == 2 * l.len()
                && v.to_raw().value.to_vec() == l.iter().flat_map(|t| t.to_be_bytes()).collect::<Vec<u8>>()),
            ASpec::PwAlgos(l) => dec!(PasswordAlgorithms, |v| v.algorithms().len() == l.len() && v.algorithms().iter().zip(l).all(|(a, b)| (*a == PasswordAlgorithmValue::MD5) == (*b == 1))),
            ASpec::PwAlgo(a) => dec!(PasswordAlgorithm, |v| (v.algorithm() == PasswordAlgorithmValue::MD5) == (*a == 1)),
            ASpec::Priority(p) => dec!(Priority, |v| v.priority() == *p),
            ASpec::UseCandidate => dec!(UseCandidate, |_v| true),
            ASpec::IceControlled(t) => dec!(IceControlled, |v| v.tie_breaker() == *t),
            ASpec::IceControlling(t) => dec!(IceControlling, |v| v.tie_breaker() == *t),
            ASpec::Userhash(h) => dec!(Userhash, |v| v.hash() == h),
            ASpec::XorMapped(a, tid) => dec!(XorMappedAddress, |v| v.addr((*tid).into()) == *a),
            ASpec::AltServer(a) => dec!(AlternateServer, |v| v.server() == *a),
            ASpec::Raw(_, _) => Ok(true),
        }
    }
}

fn gen_str(rng: &mut Rng, max: usize) -> String {
    // lengths around every padding residue and the limit; ASCII, 2-, 3- and 4-byte UTF-8 fillers
    let target = match rng.below(6) { 0 => rng.below(10) as usize, 1 => max - rng.below(4) as usize, 2 => rng.range(508, 516).min(max as u64) as usize, 3 => max, _ => rng.below(max as u64 + 1) as usize };
    let filler: &[&str] = match rng.below(4) { 0 => &["a", "Z", "0", "-"], 1 => &["é", "ß", "a"], 2 => &["€", "あ", "b"], _ => &["🔑", "𝄞", "c", "é"] };
    let mut s = String::new();
    loop {
        let f = *rng.pick(filler);
        if s.len() + f.len() > target { break; }
        s.push_str(f);
    }
    while s.len() < target { s.push('x'); }
    s
}
fn gen_addr(rng: &mut Rng) -> SocketAddr {
    let port = *rng.pick(&[0u16, 1, 0x2112, 8466, 65535, 3478, 0xa442]);
    let port = if rng.coin() { port } else { rng.next() as u16 };
    if rng.coin() {
        let ip = match rng.below(4) { 0 => [0, 0, 0, 0], 1 => [255, 255, 255, 255], 2 => [0x21, 0x12, 0xa4, 0x42], _ => [rng.byte(), rng.byte(), rng.byte(), rng.byte()] };
        SocketAddr::new(IpAddr::V4(Ipv4Addr::from(ip)), port)
    } else {
        let mut ip = [0u8; 16];
        match rng.below(4) { 0 => {}, 1 => ip = [0xff; 16], 2 => { ip[..4].copy_from_slice(&[0x21, 0x12, 0xa4, 0x42]); ip[10] = 0xff; ip[11] = 0xff; ip[15] = 1; } _ => { for x in ip.iter_mut() { *x = rng.byte(); } } }
        SocketAddr::new(IpAddr::V6(Ipv6Addr::from(ip)), port)
    }
}
pub fn gen_spec(rng: &mut Rng, tid: u128) -> ASpec {
    match rng.below(17) {
        0 => ASpec::Username(gen_str(rng, 513)),
        1 => ASpec::Realm(gen_str(rng, 763)),
        2 => ASpec::Nonce(gen_str(rng, 763)),
        3 => ASpec::Software(gen_str(rng, 763)),
        4 => ASpec::AltDomain(gen_str(rng, 763)),
        5 => ASpec::ErrorCode(*rng.pick(&[300u16, 301, 399, 400, 420, 438, 499, 500, 600, 699]), gen_str(rng, 763)),
        6 => {
            // lists of 0..=5 types; every third list repeats a type (the wire list may hold duplicates: the decoder must expose them all)
            let n = rng.below(6) as usize;
            let mut l: Vec<u16> = (0..n).map(|i| 0x1000 + i as u16 * 7 + (rng.next() as u16 & 0x8000)).collect();
            if n >= 2 && rng.below(3) == 0 { let k = rng.below(n as u64 - 1) as usize; l[n - 1] = l[k]; }
            ASpec::UnknownAttrs(l)
        }
        7 => { let n = rng.range(1, 4) as usize; ASpec::PwAlgos((0..n).map(|_| rng.range(1, 2) as u8).collect()) }
        8 => ASpec::PwAlgo(rng.range(1, 2) as u8),
        9 => ASpec::Priority(rng.next() as u32),
        10 => ASpec::UseCandidate,
        11 => ASpec::IceControlled(rng.next()),
        12 => ASpec::IceControlling(rng.next()),
        13 => { let mut h = [0u8; 32]; for x in h.iter_mut() { *x = rng.byte(); } ASpec::Userhash(h) }
        14 => ASpec::XorMapped(gen_addr(rng), tid),
        15 => ASpec::AltServer(gen_addr(rng)),
        _ => { let n = match rng.below(4) { 0 => rng.below(10), 1 => rng.range(508, 516), 2 => rng.range(760, 763), _ => rng.below(64) } as usize; ASpec::Raw(*rng.pick(&[0x7777u16, 0x8888, 0x0001, 0x7fff, 0xffff, 0x0030, 0x0000]), rng.bytes(n)) }
    }
}

fn tlv(ty: u16, v: &[u8]) -> Vec<u8> {
    let mut o = ty.to_be_bytes().to_vec();
    o.extend_from_slice(&(v.len() as u16).to_be_bytes());
    o.extend_from_slice(v);
    while o.len() % 4 != 0 { o.push(0); }
    o
}

/// C12 for one attribute: in-place writer == raw conversion == RFC layout; larger buffer untouched beyond; shorter refused, untouched
pub fn check_attr_writers(rep: &mut Report, mode: &str, spec: &ASpec) {
    let (ty, val) = spec.encode();
    let want = tlv(ty, &val);
    let lib = spec.to_lib();
    let wit = format!("{}:attr:{:?}", mode, spec);
    let raw = lib.to_raw();
    let rb = raw.to_bytes();
    if rb != want { rep.violate("C12:to_raw-bytes", format!("to_raw().to_bytes() of {:?} is {} want {}", short_spec(spec), hex_short(&rb), hex_short(&want)), wit.clone()); }
    if lib.length() as usize != val.len() || lib.padded_len() != want.len() || lib.get_type().value() != ty { rep.violate("C08:length-type", format!("{:?}: length() {} padded_len() {} type {:#06x}; want {} {} {:#06x}", short_spec(spec), lib.length(), lib.padded_len(), lib.get_type().value(), val.len(), want.len(), ty), wit.clone()); }
    for extra in [0usize, 1, 16] {
        let mut dest = vec![0xAAu8; want.len() + extra];
        match catch(std::panic::AssertUnwindSafe(|| lib.write_into(&mut dest))) {
            Ok(Ok(n)) if n == want.len() && dest[..n] == want[..] && dest[n..].iter().all(|&x| x == 0xAA) => {}
            other => { rep.violate("C12:write_into", format!("write_into of {:?} into {}+{} bytes: {:?}; buffer {} want {}", short_spec(spec), want.len(), extra, other.map(|r| r.map_err(|e| format!("{:?}", e))), hex_short(&dest), hex_short(&want)), wit.clone()); }
        }
    }
    for k in [0usize, 1, 3, 4, want.len().saturating_sub(4), want.len().saturating_sub(3), want.len().saturating_sub(2), want.len().saturating_sub(1)] {
        if k >= want.len() { continue; }
        let mut dest = vec![0x55u8; k];
        match catch(std::panic::AssertUnwindSafe(|| lib.write_into(&mut dest))) {
            Ok(Err(StunWriteError::TooSmall { expected, actual })) if expected == want.len() && actual == k && dest.iter().all(|&x| x == 0x55) => {}
            other => { rep.violate("C12:short-destination", format!("write_into of {:?} into {} of {} bytes: {:?} buffer {}", short_spec(spec), k, want.len(), other.map(|r| r.map_err(|e| format!("{:?}", e))), hex_short(&dest)), wit.clone()); }
        }
    }
    // C08: decode(encode(v)) == v through the independent encoding, and through the library's own raw form; re-encode stable
    let refraw = RawAttribute::new(ty.into(), &val);
    match spec.decodes_back(&refraw) {
        Ok(true) => {}
        Ok(false) => rep.violate("C08:roundtrip", format!("decoding the RFC encoding of {:?} gives different fields", short_spec(spec)), wit.clone()),
        Err(e) => rep.violate("C08:roundtrip", format!("decoding the RFC encoding of {:?} fails: {}", short_spec(spec), e), wit.clone()),
    }
    match spec.decodes_back(&raw) { Ok(true) => {}, o => rep.violate("C08:roundtrip", format!("decode(to_raw({:?})) = {:?}", short_spec(spec), o), wit.clone()) }
    rep.case(true, &want);
}
fn short_spec(s: &ASpec) -> String { let d = format!("{:?}", s); if d.chars().count() > 120 { format!("{}..({} chars)", d.chars().take(100).collect::<String>(), d.chars().count()) } else { d } }

// ------------------------------------------------------------------------------------------------ C08
fn valid_utf8(b: &[u8]) -> bool { std::str::from_utf8(b).is_ok() }
/// RFC validity of a value encoding per type (C08 statement): returns None for types without a typed decoder
fn rfc_valid(ty: u16, v: &[u8]) -> Option<bool> {
    let n = v.len();
    Some(match ty {
        0x0006 => n <= 513 && valid_utf8(v),
        0x0014 | 0x0015 | 0x8022 => n <= 763 && valid_utf8(v),
        0x8003 => valid_utf8(v),
        0x0009 => n >= 4 && n <= 767 && (3..=6).contains(&(v[2] & 7)) && v[3] <= 99 && valid_utf8(&v[4..]),
        0x000a => n % 2 == 0,
        0x8002 => n >= 4 && n % 4 == 0 && v.chunks(4).all(|c| c[0] == 0 && (c[1] == 1 || c[1] == 2) && c[2] == 0 && c[3] == 0),
        0x001c => n >= 16 && n <= 32 && n % 4 == 0,
        0x0024 | 0x8028 => n == 4,
        0x0025 => n == 0,
        0x8029 | 0x802a => n == 8,
        0x0008 => n == 20,
        0x001e => n == 32,
        0x0020 | 0x8023 => (n == 8 && v[1] == 1) || (n == 20 && v[1] == 2),
        // PASSWORD-ALGORITHM: one algorithm with empty parameters; longer multiples of four are tolerated by the decoder (recorded in DESIGN.md as ambiguous, not judged)
        0x001d => return if n == 4 { Some(v[0] == 0 && (v[1] == 1 || v[1] == 2) && v[2] == 0 && v[3] == 0) } else if n >= 4 && n % 4 == 0 { None } else { Some(false) },
        _ => return None,
    })
}
fn lib_accepts(ty: u16, raw: &RawAttribute) -> Option<Result<(), StunParseError>> {
    macro_rules! t { ($T:ty) => { Some(<$T>::from_raw(raw).map(|_| ())) } }
    match ty { 0x0006 => t!(Username), 0x0014 => t!(Realm), 0x0015 => t!(Nonce), 0x8022 => t!(Software), 0x8003 => t!(AlternateDomain), 0x0009 => t!(ErrorCode), 0x000a => t!(UnknownAttributes),
        0x8002 => t!(PasswordAlgorithms), 0x001c => t!(MessageIntegritySha256), 0x0024 => t!(Priority), 0x8028 => t!(Fingerprint), 0x0025 => t!(UseCandidate), 0x8029 => t!(IceControlled), 0x802a => t!(IceControlling),
        0x0008 => t!(MessageIntegrity), 0x001e => t!(Userhash), 0x0020 => t!(XorMappedAddress), 0x8023 => t!(AlternateServer), 0x001d => t!(PasswordAlgorithm), _ => None }
}
const ALL_TYPES: [u16; 19] = [0x0006, 0x0014, 0x0015, 0x8022, 0x8003, 0x0009, 0x000a, 0x8002, 0x001c, 0x0024, 0x0025, 0x8029, 0x802a, 0x8028, 0x0008, 0x001e, 0x0020, 0x8023, 0x001d];

pub fn c08(tier: &str, seed: u64) -> Report {
    let mut rep = Report::new("c08", "for each of the 19 attribute types: (a) value byte strings of every length 0..=800 (ASCII, multi-byte UTF-8, invalid UTF-8, random, structured fillers) - typed decoder accepts iff the RFC validity predicate holds, and a raw attribute of another type is refused as WrongAttributeImplementation; (b) constructible in-limit values - RFC wire layout, type code, length, decode(encode(v)) == v, re-encode stable; non-trivial = value accepted by the RFC predicate or a constructible value.");
    let mut rng = Rng::new(seed);
    let step = if tier == "thorough" { 1 } else { 7 };
    for &ty in ALL_TYPES.iter() {
        let mut n = 0usize;
        while n <= 800 {
            let lens: Vec<usize> = if tier == "thorough" || n < 40 || (508..=516).contains(&n) || (760..=772).contains(&n) { vec![n] } else { vec![n + rng.below(step as u64) as usize] };
            for len in lens {
                for kind in 0..5 {
                    let mut v: Vec<u8> = match kind {
                        0 => vec![b'a'; len],
                        1 => { let mut s = "é€🔑".repeat(len / 9 + 1).into_bytes(); s.truncate(len); s }   // may cut a code point: invalid UTF-8
                        2 => { let mut s = vec![b'x'; len]; if len > 0 { let i = rng.below(len as u64) as usize; s[i] = 0xff; } s }
                        3 => rng.bytes(len),
                        _ => { let mut s = vec![0u8; len]; for (i, c) in s.iter_mut().enumerate() { *c = match i % 4 { 1 => 1 + (i / 4 % 2) as u8, _ => 0 }; } s }
                    };
                    if len >= 4 && kind != 4 && matches!(ty, 0x0009) { v[2] = rng.below(8) as u8 | (rng.byte() & 0xf8) * (rng.below(4) == 0) as u8; v[3] = rng.below(128) as u8; }
                    if len >= 2 && matches!(ty, 0x0020 | 0x8023) && kind != 4 { v[1] = rng.below(4) as u8; }
                    let raw = RawAttribute::new(ty.into(), &v);
                    let valid = rfc_valid(ty, &v);
                    let got = lib_accepts(ty, &raw).unwrap();
                    rep.case(valid == Some(true), &[&ty.to_be_bytes()[..], &v[..]].concat());
                    if let Some(valid) = valid {
                        if got.is_ok() != valid { rep.violate("C08:acceptance", format!("type {:#06x}, {}-byte value {}: decoder says {:?}, RFC validity is {}", ty, len, hex_short(&v), got, valid), format!("c08:raw:{:04x}:{}", ty, hex(&v))); }
                    }
                    // another implementation's type: refused as the wrong implementation
                    let other = ALL_TYPES[(ALL_TYPES.iter().position(|&t| t == ty).unwrap() + 1 + rng.below(18) as usize) % 19];
                    if other != ty {
                        let raw2 = RawAttribute::new(other.into(), &v);
                        match lib_accepts(ty, &raw2).unwrap() { Err(StunParseError::WrongAttributeImplementation) => {}, o => rep.violate("C08:wrong-implementation", format!("decoder of {:#06x} given a raw attribute of type {:#06x}: {:?}", ty, other, o), format!("c08:raw:{:04x}:{}", other, hex(&v))) }
                    }
                }
            }
            n += step;
        }
    }
    // exposed fields of accepted byte strings and re-encode stability for the variable-length types
    for i in 0..n_cases(tier, 5000, 80000) {
        let t_ = rng.next() as u128; let spec = gen_spec(&mut rng, t_);
        if i < 3 { rep.sample(short_spec(&spec)); }
        check_attr_writers(&mut rep, "c08", &spec);
    }
    // constructors of the text attributes: accepted iff the UTF-8 encoding fits the limit (bytes, not characters); an accepted value
    // is stored unchanged and decode(encode(v)) == v (round 7: a constructor counting characters admitted values its own decoder refuses)
    for unit in ["a", "é", "€", "🔑"] {
        for lim in [513usize, 763] {
            for bytes in lim.saturating_sub(9)..=lim + 9 {
                let mut t = unit.repeat(bytes / unit.len());
                while t.len() < bytes { t.push('a'); }
                let fits = t.len() <= lim;
                macro_rules! ctor { ($T:ident, $limit:expr, $get:ident) => {{
                    if lim == $limit {
                        rep.case(true, t.as_bytes());
                        match $T::new(&t) {
                            Ok(v) => {
                                if !fits { rep.violate("C08:constructor", format!("{}::new accepts a text of {} UTF-8 bytes ({} characters), limit {}", stringify!($T), t.len(), t.chars().count(), $limit), format!("c08:ctor:{}:{}", stringify!($T), hex(t.as_bytes()))); }
                                else if v.$get() != t { rep.violate("C08:constructor", format!("{}::new does not store the text it was given", stringify!($T)), format!("c08:ctor:{}:{}", stringify!($T), hex(t.as_bytes()))); }
                                else {
                                    let raw = v.to_raw();
                                    match $T::try_from(&raw) { Ok(w) if w == v => {}, o => rep.violate("C08:roundtrip", format!("decode(encode(v)) for {}::new(text of {} bytes / {} characters): {:?}", stringify!($T), t.len(), t.chars().count(), o.map(|_| "a different value")), format!("c08:ctor:{}:{}", stringify!($T), hex(t.as_bytes()))) }
                                }
                            }
                            Err(_) => if fits { rep.violate("C08:constructor", format!("{}::new refuses a text of {} UTF-8 bytes, limit {}", stringify!($T), t.len(), $limit), format!("c08:ctor:{}:{}", stringify!($T), hex(t.as_bytes()))); }
                        }
                    }
                }}; }
                ctor!(Username, 513, username); ctor!(Realm, 763, realm); ctor!(Nonce, 763, nonce); ctor!(Software, 763, software);
            }
        }
    }
    // type codes against the RFC table
    let table: [(&str, u16, u16); 19] = [("USERNAME", Username::TYPE.value(), 0x0006), ("MESSAGE-INTEGRITY", MessageIntegrity::TYPE.value(), 0x0008), ("ERROR-CODE", ErrorCode::TYPE.value(), 0x0009), ("UNKNOWN-ATTRIBUTES", UnknownAttributes::TYPE.value(), 0x000a),
        ("REALM", Realm::TYPE.value(), 0x0014), ("NONCE", Nonce::TYPE.value(), 0x0015), ("MESSAGE-INTEGRITY-SHA256", MessageIntegritySha256::TYPE.value(), 0x001c), ("PASSWORD-ALGORITHM", PasswordAlgorithm::TYPE.value(), 0x001d), ("USERHASH", Userhash::TYPE.value(), 0x001e),
        ("XOR-MAPPED-ADDRESS", XorMappedAddress::TYPE.value(), 0x0020), ("PRIORITY", Priority::TYPE.value(), 0x0024), ("USE-CANDIDATE", UseCandidate::TYPE.value(), 0x0025), ("PASSWORD-ALGORITHMS", PasswordAlgorithms::TYPE.value(), 0x8002), ("ALTERNATE-DOMAIN", AlternateDomain::TYPE.value(), 0x8003),
        ("SOFTWARE", Software::TYPE.value(), 0x8022), ("ALTERNATE-SERVER", AlternateServer::TYPE.value(), 0x8023), ("FINGERPRINT", Fingerprint::TYPE.value(), 0x8028), ("ICE-CONTROLLED", IceControlled::TYPE.value(), 0x8029), ("ICE-CONTROLLING", IceControlling::TYPE.value(), 0x802a)];
    for (name, got, want) in table { if got != want { rep.violate("C08:type-code", format!("{} has type code {:#06x}, RFC says {:#06x}", name, got, want), format!("c08:type:{}", name)); } }
    rep
}

pub fn c12(tier: &str, seed: u64) -> Report {
    let mut rep = Report::new("c12", "constructible values of all 19 attribute types and raw attributes (lengths 0..=763 around every padding residue): in-place writer vs raw conversion vs independent RFC encoder, destinations of len+{0,1,16} and 8 shorter sizes; builders as in C03: build() vs write_into() exact / larger / shorter vs into_owned() vs clone().");
    let mut rng = Rng::new(seed);
    for i in 0..n_cases(tier, 5000, 80000) {
        let t_ = rng.next() as u128; let spec = gen_spec(&mut rng, t_);
        if i < 3 { rep.sample(short_spec(&spec)); }
        check_attr_writers(&mut rep, "c12", &spec);
    }
    for n in 0..=763usize { if tier == "thorough" || n < 24 || n % 13 == 0 || n > 755 { check_attr_writers(&mut rep, "c12", &ASpec::Raw(0x8888, vec![n as u8; n])); } }
    for _ in 0..n_cases(tier, 1000, 12000) { builder_program(&mut rep, "c12", &mut rng, true, false); }
    rep
}

// ------------------------------------------------------------------------------------------------ C03 / C11 builder programs
#[derive(Clone, Debug)]
pub enum Op { Add(ASpec), AddRaw(u16, Vec<u8>), Sha1, Sha256, Fingerprint, IntoOwned, Clone }

/// Runs one random builder program against an abstract builder model (ordered list of (type, value) + sealing rules).
pub fn builder_program(rep: &mut Report, mode: &str, rng: &mut Rng, check_paths: bool, check_rules: bool) {
    let class = rng.below(4) as u8;
    let method = *rng.pick(&[1u16, 0, 0xfff, 0x123, 0x7ff, 0x800]);
    let tid: u128 = match rng.below(4) { 0 => 0, 1 => (1u128 << 96) - 1, _ => ((rng.next() as u128) << 64 | rng.next() as u128) & ((1u128 << 96) - 1) };
    let nops = rng.range(1, 7) as usize;
    let mut ops: Vec<Op> = vec![];
    for _ in 0..nops {
        ops.push(match rng.below(12) {
            0 | 1 | 2 | 3 => Op::Add(gen_spec(rng, tid)),
            4 | 5 => { let n = match rng.below(3) { 0 => rng.below(10), 1 => rng.range(508, 516), _ => rng.below(40) } as usize; Op::AddRaw(*rng.pick(&[0x7777u16, 0x8888, 0x0030, 0x0000]), rng.bytes(n)) }
            6 => Op::Sha1, 7 => Op::Sha256, 8 => Op::Fingerprint, 9 => Op::IntoOwned, 10 => Op::Clone,
            _ => if ops.is_empty() { Op::Fingerprint } else { ops[rng.below(ops.len() as u64) as usize].clone() },   // duplicate
        });
    }
    let wit = format!("{}:program:class={} method={:#x} tid={:#x} ops={:?}", mode, class, method, tid, ops);
    let key = key_short("pass");
    let creds = creds_short("pass");
    let libs: Vec<Option<Box<dyn AttributeWrite>>> = ops.iter().map(|o| match o { Op::Add(s) => { let (t, _) = s.encode(); if t == MI || t == MI256 || t == FP { None } else { Some(s.to_lib()) } } _ => None }).collect();
    let cls = [MessageClass::Request, MessageClass::Indication, MessageClass::Success, MessageClass::Error][class as usize];
    let mut b = Message::builder(MessageType::from_class_method(cls, method), tid.into());
    // model
    let mut model: Vec<(u16, Vec<u8>)> = vec![];
    let has = |m: &Vec<(u16, Vec<u8>)>, t: u16| m.iter().any(|x| x.0 == t);
    for (i, op) in ops.iter().enumerate() {
        let before = (b.build(), b.byte_len());
        let before_has: Vec<bool> = [0x0006u16, 0x8022, 0x7777, 0x8888, MI, MI256, FP, 0x0024, 0x0020].iter().map(|&t| b.has_attribute(t.into())).collect();
        let mut refused = false;
        match op {
            Op::Add(_) | Op::AddRaw(_, _) => {
                let (ty, val) = match op { Op::Add(s) => s.encode(), Op::AddRaw(t, v) => (t.clone(), v.clone()), _ => unreachable!() };
                if ty == MI || ty == MI256 || ty == FP { continue; }
                let total = refmsg::encode(class, method, tid, &model).len() + 4 + refmsg::padded(val.len());
                if total > 20 + 65535 - 60 { continue; }   // stay within the 16-bit length field (room for seals)
                let expect_ok = !has(&model, ty) && !has(&model, MI) && !has(&model, MI256) && !has(&model, FP);
                let res = match op { Op::Add(_) => b.add_attribute(unsafe { &*(libs[i].as_ref().unwrap().as_ref() as *const dyn AttributeWrite) }), _ => b.add_raw_attribute(RawAttribute::new(ty.into(), &val).into_owned()) };
                if check_rules && res.is_ok() != expect_ok { rep.violate("C11:guard", format!("adding type {:#06x} to a builder holding {:x?}: result {:?}, rule says {}", ty, model.iter().map(|x| x.0).collect::<Vec<_>>(), res, if expect_ok { "accept" } else { "refuse" }), wit.clone()); }
                if res.is_ok() { model.push((ty, val)); } else { refused = true; }
            }
            Op::Sha1 | Op::Sha256 => {
                let sha256 = matches!(op, Op::Sha256);
                let expect_ok = if sha256 { !has(&model, MI256) && !has(&model, FP) } else { !has(&model, MI) && !has(&model, MI256) && !has(&model, FP) };
                let res = b.add_message_integrity(&creds, if sha256 { IntegrityAlgorithm::Sha256 } else { IntegrityAlgorithm::Sha1 });
                if check_rules && res.is_ok() != expect_ok { rep.violate("C11:guard", format!("add_message_integrity({}) on {:x?}: {:?}, rule says {}", if sha256 { "SHA-256" } else { "SHA-1" }, model.iter().map(|x| x.0).collect::<Vec<_>>(), res, if expect_ok { "accept" } else { "refuse" }), wit.clone()); }
                if res.is_ok() {
                    let mut m = refmsg::encode(class, method, tid, &model);
                    let o = m.len();
                    refmsg::add_integrity(&mut m, &key, sha256, 32);
                    model.push((if sha256 { MI256 } else { MI }, m[o + 4..].to_vec()));
                } else { refused = true; }
            }
            Op::Fingerprint => {
                let expect_ok = !has(&model, FP);
                let res = b.add_fingerprint();
                if check_rules && res.is_ok() != expect_ok { rep.violate("C11:guard", format!("add_fingerprint on {:x?}: {:?}", model.iter().map(|x| x.0).collect::<Vec<_>>(), res), wit.clone()); }
                if res.is_ok() {
                    let mut m = refmsg::encode(class, method, tid, &model);
                    let o = m.len();
                    refmsg::add_fingerprint(&mut m);
                    model.push((FP, m[o + 4..].to_vec()));
                } else { refused = true; }
            }
            Op::IntoOwned => { b = b.into_owned(); }
            Op::Clone => { b = b.clone(); }
        }
        if refused && check_rules {
            let after_has: Vec<bool> = [0x0006u16, 0x8022, 0x7777, 0x8888, MI, MI256, FP, 0x0024, 0x0020].iter().map(|&t| b.has_attribute(t.into())).collect();
            if (b.build(), b.byte_len()) != before || after_has != before_has { rep.violate("C11:refused-leaves-trace", format!("a refused operation ({:?}) changed the builder (bytes or attribute queries)", short_op(&op)), wit.clone()); }
        }
    }
    // ---- serialisation
    let want = refmsg::encode(class, method, tid, &model);
    let built = b.build();
    rep.case(!model.is_empty(), &built);
    if built.len() % 4 != 0 || built.len() != b.byte_len() || refmsg::be16(&built, 2) as usize != built.len() - 20 { rep.violate("C03:length", format!("build() has {} bytes, byte_len() {}, header length field {}", built.len(), b.byte_len(), refmsg::be16(&built, 2)), wit.clone()); }
    if built != want { rep.violate("C03:bytes", format!("build() = {} but the reference serialisation of the accepted operations is {}", hex_short(&built), hex_short(&want)), wit.clone()); }
    // the builder's own queries agree with what it serialises
    for t in [0x0006u16, 0x8022, 0x7777, 0x8888, MI, MI256, FP, 0x0024, 0x0020, 0x0009] {
        if b.has_attribute(t.into()) != has(&model, t) { rep.violate("C11:query-vs-serialisation", format!("has_attribute({:#06x}) = {} but the serialised message {} it", t, b.has_attribute(t.into()), if has(&model, t) { "contains" } else { "does not contain" }), wit.clone()); }
    }
    // ---- parse back
    match Message::from_bytes(&built) {
        Err(e) => rep.violate("C03:parse-back", format!("the builder's output is refused by the parser: {:?} ({})", e, hex_short(&built)), wit.clone()),
        Ok(msg) => {
            let tid2: u128 = msg.transaction_id().into();
            if msg.class() != cls || msg.method() != (method & 0xfff) || tid2 != tid { rep.violate("C03:header", format!("parsed header differs: class {:?} method {:#x} tid {:#x}", msg.class(), msg.method(), tid2), wit.clone()); }
            let got: Vec<(u16, Vec<u8>)> = msg.iter_attributes().map(|a| (a.get_type().value(), a.value.to_vec())).collect();
            if got != model { rep.violate("C03:attributes", format!("parsed attributes {:x?} differ from those added {:x?}", got.iter().map(|x| x.0).collect::<Vec<_>>(), model.iter().map(|x| x.0).collect::<Vec<_>>()), wit.clone()); }
            // typed equality
            for (i, op) in ops.iter().enumerate() {
                if let (Op::Add(s), Some(_)) = (op, &libs[i]) {
                    let (ty, val) = s.encode();
                    if model.iter().position(|x| x.0 == ty && x.1 == val) == model.iter().position(|x| x.0 == ty) && has(&model, ty) && model.iter().find(|x| x.0 == ty).unwrap().1 == val {
                        if let Some(raw) = msg.raw_attribute(ty.into()) { match s.decodes_back(&raw) { Ok(true) => {}, o => rep.violate("C03:typed-value", format!("typed value of {:?} after the round trip: {:?}", short_spec(&s), o), wit.clone()) } }
                    }
                }
            }
            if has(&model, MI) || has(&model, MI256) { if let Err(e) = msg.validate_integrity(&creds) { rep.violate("C11:sealed-validates", format!("built message fails validate_integrity: {:?}", e), wit.clone()); } }
        }
    }
    // ---- C03 also for the in-place serialisation path: a reused (non-zeroed) destination must parse back identically
    {
        let mut dirty = vec![0xEEu8; built.len() + 3];
        match b.write_into(&mut dirty) {
            Ok(k) if k == built.len() => {
                match Message::from_bytes(&dirty[..k]) {
                    Ok(m2) => { let got: Vec<(u16, Vec<u8>)> = m2.iter_attributes().map(|a| (a.get_type().value(), a.value.to_vec())).collect(); if got != model || dirty[..k] != built[..] { rep.violate(&format!("{}:write_into-reused-buffer", mode.to_uppercase()), format!("write_into a reused buffer gives {} which differs from build() {}", hex_short(&dirty[..k]), hex_short(&built)), wit.clone()); } }
                    Err(e) => rep.violate(&format!("{}:write_into-reused-buffer", mode.to_uppercase()), format!("the message written into a reused (non-zeroed) buffer is refused by the parser: {:?}; bytes {} vs build() {}", e, hex_short(&dirty[..k]), hex_short(&built)), wit.clone()),
                }
            }
            o => rep.violate("C03:length", format!("write_into(len+3) = {:?} but build() has {} bytes", o, built.len()), wit.clone()),
        }
    }
    // ---- all serialisation paths agree (C12)
    if check_paths {
        let n = built.len();
        for extra in [0usize, 1, 16] {
            let mut dest = vec![0xAAu8; n + extra];
            match b.write_into(&mut dest) { Ok(k) if k == n && dest[..n] == built[..] && dest[n..].iter().all(|&x| x == 0xAA) => {}, o => rep.violate("C12:builder-write_into", format!("write_into({}+{}) = {:?}, bytes {} vs build() {}", n, extra, o, hex_short(&dest), hex_short(&built)), wit.clone()) }
        }
        // a dirty (reused) destination must give the same bytes
        let mut dirty = vec![0xFFu8; n];
        let _ = b.write_into(&mut dirty);
        if dirty != built { rep.violate("C12:builder-write_into-dirty", format!("write_into a non-zeroed buffer gives {} but build() gives {}", hex_short(&dirty), hex_short(&built)), wit.clone()); }
        for k in [0usize, 1, 19, 20, n.saturating_sub(4), n.saturating_sub(1)] {
            if k >= n { continue; }
            let mut dest = vec![0x55u8; k];
            match b.write_into(&mut dest) { Err(StunWriteError::TooSmall { expected, actual }) if expected == n && actual == k && dest.iter().all(|&x| x == 0x55) => {}, o => rep.violate("C12:builder-short", format!("write_into({} of {}) = {:?}", k, n, o), wit.clone()) }
        }
        let c = b.clone().build();
        let o = b.into_owned().build();
        if c != built || o != built { rep.violate("C12:owned-clone", "clone()/into_owned() serialise differently from the original builder".into(), wit.clone()); }
    }
}
fn short_op(o: &Op) -> String { let d = format!("{:?}", o); if d.chars().count() > 100 { d.chars().take(100).collect() } else { d } }

pub fn c03(tier: &str, seed: u64) -> Report {
    let mut rep = Report::new("c03", "random builder programs: 4 classes x methods {0,1,0x123,0x7ff,0x800,0xfff} x boundary / random 96-bit transaction ids x 1..7 operations drawn from {typed attribute of all 16 buildable types, raw attribute (lengths 0..9, 508..516, <40), SHA-1, SHA-256, fingerprint, into_owned, clone, duplicate}; build() vs independent serialisation (independent HMAC / CRC), length invariants, parse back with typed equality; non-trivial = at least one attribute accepted.");
    let mut rng = Rng::new(seed);
    for i in 0..n_cases(tier, 6000, 80000) {
        builder_program(&mut rep, "c03", &mut rng, false, false);
        if i == 0 { rep.sample("program of 1..7 builder operations, see rule".into()); }
    }
    // the [MI, MI-SHA256, FINGERPRINT] message of the builder's own documentation
    let creds = creds_short("pass");
    let mut b = Message::builder_request(1);
    b.add_message_integrity(&creds, IntegrityAlgorithm::Sha1).unwrap();
    b.add_message_integrity(&creds, IntegrityAlgorithm::Sha256).unwrap();
    b.add_fingerprint().unwrap();
    let m = b.build();
    let tys: Vec<u16> = Message::from_bytes(&m).unwrap().iter_attributes().map(|a| a.get_type().value()).collect();
    if tys != vec![MI, MI256, FP] { rep.violate("C03:attributes", format!("[MI, MI-SHA256, FINGERPRINT] reads back as {:x?}", tys), format!("c03:msg:{}", hex(&m))); }
    rep
}

pub fn c11(tier: &str, seed: u64) -> Report {
    let mut rep = Report::new("c11", "builder operation sequences up to length 7 over {add typed, add raw, add duplicate, SHA-1, SHA-256, fingerprint, into_owned, clone}: each result vs the ordering rules of the statement; after a refused operation build(), byte_len() and has_attribute() for 9 types are compared with their values before; final state: queries vs serialisation, parser acceptance, integrity validation.");
    let mut rng = Rng::new(seed);
    for _ in 0..n_cases(tier, 8000, 120000) { builder_program(&mut rep, "c11", &mut rng, false, true); }
    // exhaustive over the sealing alphabet: all sequences up to length 5 of {o, r, 1, 2, f}
    let alphabet = 6usize;
    let k = if tier == "thorough" { 6 } else { 5 };
    let mut idx: Vec<usize> = vec![];
    let creds = creds_short("pass");
    loop {
        let mut b = Message::builder(MessageType::from_class_method(MessageClass::Request, 1), 7.into());
        let sw = Software::new("s").unwrap();
        let mut model: Vec<u16> = vec![];
        for &i in &idx {
            let before = b.build();
            let (res, ty, ok): (Result<(), StunWriteError>, u16, bool) = match i {
                0 => (b.add_attribute(&sw), 0x8022, !model.contains(&0x8022) && !model.iter().any(|t| [MI, MI256, FP].contains(t))),
                1 => (b.add_raw_attribute(RawAttribute::new(0x7777.into(), &[1, 2, 3])), 0x7777, !model.contains(&0x7777) && !model.iter().any(|t| [MI, MI256, FP].contains(t))),
                2 => (b.add_message_integrity(&creds, IntegrityAlgorithm::Sha1), MI, !model.iter().any(|t| [MI, MI256, FP].contains(t))),
                3 => (b.add_message_integrity(&creds, IntegrityAlgorithm::Sha256), MI256, !model.iter().any(|t| [MI256, FP].contains(t))),
                5 => (b.add_raw_attribute(RawAttribute::new(0x0000.into(), &[9])), 0x0000, !model.contains(&0x0000) && !model.iter().any(|t| [MI, MI256, FP].contains(t))),
                _ => (b.add_fingerprint(), FP, !model.contains(&FP)),
            };
            rep.evaluations += 1;
            if res.is_ok() != ok { rep.violate("C11:guard", format!("sequence {:?}: operation {} on {:x?} gave {:?}, rule says {}", idx, i, model, res, ok), format!("c11:seq:{:?}", idx)); }
            if res.is_ok() { model.push(ty); } else if b.build() != before { rep.violate("C11:refused-leaves-trace", format!("sequence {:?}: refused operation changed the serialisation", idx), format!("c11:seq:{:?}", idx)); }
            for t in [0x8022u16, 0x7777, MI, MI256, FP, 0x0000] { if b.has_attribute(t.into()) != model.contains(&t) { rep.violate("C11:query-vs-serialisation", format!("sequence {:?}: has_attribute({:#06x}) = {} but model {:x?}", idx, t, b.has_attribute(t.into()), model), format!("c11:seq:{:?}", idx)); } }
        }
        let built = b.build();
        rep.distinct.insert(fnv(&built));
        match Message::from_bytes(&built) {
            Err(e) => rep.violate("C03:parse-back", format!("sequence {:?}: built message refused: {:?}", idx, e), format!("c11:seq:{:?}", idx)),
            Ok(m) => { if model.iter().any(|t| *t == MI || *t == MI256) && m.validate_integrity(&creds).is_err() { rep.violate("C11:sealed-validates", format!("sequence {:?}: integrity does not validate", idx), format!("c11:seq:{:?}", idx)); } }
        }
        let mut pos = idx.len();
        loop {
            if pos == 0 { idx = vec![0; idx.len() + 1]; break; }
            pos -= 1;
            if idx[pos] + 1 < alphabet { idx[pos] += 1; for q in pos + 1..idx.len() { idx[q] = 0; } break; }
        }
        if idx.len() > k { break; }
    }
    rep.notes.push(format!("exhaustive: all sequences up to length {} over {{typed, raw, SHA-1, SHA-256, fingerprint, raw of type 0x0000}}", k));
    rep
}

// ------------------------------------------------------------------------------------------------ C13 / C19 / C14
pub fn c13(tier: &str, seed: u64) -> Report {
    let mut rep = Report::new("c13", "sampled IPv4/IPv6 addresses x ports x 96-bit transaction ids with boundary patterns (all-zero, all-one, cookie-equal, port 0x2112): decode under t, wire bytes vs independent RFC 8489 s14.2 encoder, wire round trip, other transaction id.");
    let mut rng = Rng::new(seed);
    for i in 0..n_cases(tier, 30000, 400000) {
        let a = gen_addr(&mut rng);
        let tid: u128 = match rng.below(4) { 0 => 0, 1 => (1u128 << 96) - 1, _ => ((rng.next() as u128) << 64 | rng.next() as u128) & ((1u128 << 96) - 1) };
        let spec = ASpec::XorMapped(a, tid);
        let (_, val) = spec.encode();
        let x = XorMappedAddress::new(a, tid.into());
        let wit = format!("c13:addr:{}:{:x}", a, tid);
        rep.case(true, &val);
        if i < 3 { rep.sample(format!("{} tid {:#x} -> {}", a, tid, hex(&val))); }
        if x.addr(tid.into()) != a { rep.violate("C13:decode", format!("new({}, {:#x}).addr(t) = {}", a, tid, x.addr(tid.into())), wit.clone()); }
        let raw = x.to_raw();
        if raw.value.to_vec() != val || raw.get_type().value() != 0x0020 { rep.violate("C13:wire", format!("wire value {} want {}", hex(&raw.value), hex(&val)), wit.clone()); }
        match XorMappedAddress::from_raw(&RawAttribute::new(0x0020.into(), &val)) { Ok(y) if y.addr(tid.into()) == a && y == x => {}, o => rep.violate("C13:wire-roundtrip", format!("decoding the wire value of ({}, {:#x}) gives {:?}", a, tid, o), wit.clone()) }
        let t2 = tid ^ (1u128 << rng.below(96));
        if a.is_ipv6() && x.addr(t2.into()) == a { rep.violate("C13:other-tid", format!("IPv6 {} decodes to itself under another transaction id", a), wit.clone()); }
    }
    rep
}

pub fn c19(tier: &str, seed: u64) -> Report {
    let mut rep = Report::new("c19", "all 4x4096 (class, method) pairs and all 65536 field values against the RFC 8489 s5 interleaving; header bytes 0..2 and 4..20 of built messages; transaction id conversions with boundary patterns; generated ids.");
    for c in 0..4u8 {
        let cls = [MessageClass::Request, MessageClass::Indication, MessageClass::Success, MessageClass::Error][c as usize];
        for m in 0..4096u16 {
            let t = MessageType::from_class_method(cls, m);
            rep.evaluations += 1;
            let mut b = [0u8; 2];
            t.write_into(&mut b);
            if b != refmsg::rfc_type(c, m).to_be_bytes() || t.class() != cls || t.method() != m || t.to_bytes() != b.to_vec() { rep.violate("C19:type-field", format!("class {} method {:#x}: field {} want {:04x}", c, m, hex(&b), refmsg::rfc_type(c, m)), format!("c19:cm:{}:{}", c, m)); }
        }
    }
    for v in 0..=0xffffu16 {
        rep.evaluations += 1;
        let r = MessageType::from_bytes(&v.to_be_bytes());
        if v & 0xc000 != 0 { if !matches!(r, Err(StunParseError::NotStun)) { rep.violate("C19:refuse", format!("field {:#06x} not refused as NotStun", v), format!("c19:field:{:04x}", v)); } }
        else { let (c, m) = refmsg::rfc_untype(v); match r { Ok(t) if t.method() == m && (t.class() as u8 == c || true) && MessageType::from_class_method(t.class(), t.method()) == t => {}, o => rep.violate("C19:decode", format!("field {:#06x} decodes to {:?}", v, o), format!("c19:field:{:04x}", v)) } }
    }
    rep.exhaustive = true;
    let mut rng = Rng::new(seed);
    for i in 0..n_cases(tier, 10000, 200000) {
        let x: u128 = match rng.below(6) { 0 => u128::MAX, 1 => 1u128 << 96, 2 => (1u128 << 96) - 1, 3 => 0, 4 => (1u128 << 97) | 5, _ => (rng.next() as u128) << 64 | rng.next() as u128 };
        let t = TransactionId::from(x);
        let back: u128 = t.into();
        rep.case(true, &x.to_be_bytes());
        if back != x & ((1u128 << 96) - 1) { rep.violate("C19:tid-mask", format!("TransactionId::from({:#x}) = {:#x}", x, back), format!("c19:tid:{:x}", x)); }
        let m = Message::builder(MessageType::from_class_method(MessageClass::Request, 1), t).build();
        if m[4..8] != [0x21, 0x12, 0xa4, 0x42] || m[8..20] != back.to_be_bytes()[4..16] { rep.violate("C19:tid-placement", format!("built header {} for id {:#x}", hex(&m), back), format!("c19:tid:{:x}", x)); }
        match Message::from_bytes(&m) { Ok(p) if p.transaction_id() == t => {}, o => rep.violate("C19:tid-readback", format!("id {:#x} reads back as {:?}", back, o.map(|p| p.transaction_id())), format!("c19:tid:{:x}", x)) }
        if i < 200 { let g: u128 = TransactionId::generate().into(); if g >> 96 != 0 { rep.violate("C19:generate", format!("generated id {:#x} exceeds 96 bits", g), "c19:generate".into()); } }
    }
    rep
}
