//! Message-level bounded checks (C01 C02 C04 C09 C10 C16 C17): the real parser and read-only operations
//! against the reference decoder, on grammar-generated, sealed, mutated and boundary messages.
use crate::refcrypto::*;
use crate::refmsg::{self, RefErr, RefMsg, FP, MI, MI256};
use crate::util::*;
use stun_types::attribute::*;
use stun_types::message::*;

pub const ORD_TYPES: [u16; 13] = [0x0006, 0x8022, 0x0024, 0x7777, 0x8888, 0x0009, 0x000a, 0x0020, 0x0014, 0x001d, 0x8029, 0x0025, 0x0000];

pub fn creds_short(p: &str) -> MessageIntegrityCredentials { ShortTermCredentials::new(p.to_owned()).into() }
pub fn creds_long(u: &str, p: &str, r: &str) -> MessageIntegrityCredentials { LongTermCredentials::new(u.to_owned(), p.to_owned(), r.to_owned()).into() }
pub fn key_short(p: &str) -> Vec<u8> { p.as_bytes().to_vec() }
pub fn key_long(u: &str, p: &str, r: &str) -> Vec<u8> { md5(format!("{}:{}:{}", u, r, p).as_bytes()).to_vec() }

fn plausible_value(rng: &mut Rng, ty: u16) -> Vec<u8> {
    if rng.below(4) == 0 { let n = rng.below(10) as usize; return rng.bytes(n); }
    match ty {
        0x0006 | 0x8022 | 0x0014 | 0x0015 | 0x8003 => { let n = rng.below(12) as usize; (0..n).map(|_| b'a' + rng.below(26) as u8).collect() }
        0x0024 => rng.bytes(4),
        0x0009 => { let mut v = vec![0, 0, rng.range(3, 6) as u8, rng.below(100) as u8]; v.extend_from_slice(b"err"); v }
        0x000a => { let n = rng.below(4) as usize; rng.bytes(2 * n) }
        0x0020 | 0x8023 => { if rng.coin() { let mut v = vec![0, 1]; v.extend(rng.bytes(6)); v } else { let mut v = vec![0, 2]; v.extend(rng.bytes(18)); v } }
        0x001d => vec![0, rng.range(1, 2) as u8, 0, 0],
        0x8029 | 0x802a => rng.bytes(8),
        0x0025 => vec![],
        _ => { let n = rng.below(10) as usize; rng.bytes(n) }
    }
}

/// tail patterns: 'm' MI, 's' MI-SHA256, 'f' FINGERPRINT, 'o' ordinary attribute, 'M'/'S' integrity with a wrong length, 'x' wrong MAC, 'g' wrong fingerprint
pub const TAILS: [&str; 26] = ["", "", "", "m", "s", "ms", "sm", "f", "mf", "sf", "msf", "smf", "fm", "fs", "mm", "ff", "mo", "fo", "so", "M", "S", "x", "xf", "g", "mg", "msm"];

pub fn gen_message(rng: &mut Rng, key: &[u8]) -> Vec<u8> {
    let class = rng.below(4) as u8;
    let method = *rng.pick(&[1u16, 1, 1, 0, 0xfff, 0x123, 0x080, 0x7ff]);
    let tid: u128 = match rng.below(5) { 0 => 0, 1 => (1u128 << 96) - 1, 2 => 0x2112a442, _ => ((rng.next() as u128) << 64 | rng.next() as u128) & ((1u128 << 96) - 1) };
    let n = rng.below(5) as usize;
    let mut attrs = vec![];
    let mut used = vec![];
    for _ in 0..n {
        let ty = if rng.below(8) == 0 { rng.next() as u16 } else { *rng.pick(&ORD_TYPES) };
        if ty == MI || ty == MI256 || ty == FP { continue; }
        if used.contains(&ty) && rng.below(3) != 0 { continue; }
        used.push(ty);
        attrs.push((ty, plausible_value(rng, ty)));
    }
    let mut msg = refmsg::encode(class, method, tid, &attrs);
    let tail = *rng.pick(&TAILS);
    for c in tail.chars() {
        match c {
            'm' => refmsg::add_integrity(&mut msg, key, false, 20),
            's' => { let t = *rng.pick(&[32usize, 32, 16, 20, 24, 28]); refmsg::add_integrity(&mut msg, key, true, t) }
            'x' => { refmsg::add_integrity(&mut msg, key, rng.coin(), 32.min(20 + 12 * (rng.coin() as usize))); let l = msg.len(); msg[l - 1] ^= 1; }
            'f' => refmsg::add_fingerprint(&mut msg),
            'g' => { refmsg::add_fingerprint(&mut msg); let l = msg.len(); msg[l - 2] ^= 0x10; }
            'o' => { let ty = *rng.pick(&[0x8022u16, 0x7777, 0x0024, 0x0000]); let v = plausible_value(rng, ty); append_attr(&mut msg, ty, &v); }
            'M' => { let n = *rng.pick(&[16usize, 24, 0, 19]); let v = rng.bytes(n); append_attr(&mut msg, MI, &v); }
            'S' => { let n = *rng.pick(&[12usize, 18, 36, 0, 15]); let v = rng.bytes(n); append_attr(&mut msg, MI256, &v); }
            _ => {}
        }
    }
    msg
}

pub fn append_attr(msg: &mut Vec<u8>, ty: u16, v: &[u8]) {
    msg.extend_from_slice(&ty.to_be_bytes());
    msg.extend_from_slice(&(v.len() as u16).to_be_bytes());
    msg.extend_from_slice(v);
    while msg.len() % 4 != 0 { msg.push(0); }
    let l = (msg.len() - 20) as u16;
    msg[2] = (l >> 8) as u8;
    msg[3] = l as u8;
}

pub fn mutate(rng: &mut Rng, m: &[u8]) -> Vec<u8> {
    let mut b = m.to_vec();
    match rng.below(9) {
        0 => { if !b.is_empty() { let i = rng.below(b.len() as u64) as usize; b[i] ^= 1 << rng.below(8); } }
        1 => { if b.len() >= 4 { let d = rng.range(1, 8) as u16; let l = refmsg::be16(&b, 2); let nl = if rng.coin() { l.wrapping_add(d) } else { l.wrapping_sub(d) }; b[2] = (nl >> 8) as u8; b[3] = nl as u8; } }
        2 => { let k = rng.below(b.len() as u64 + 1) as usize; b.truncate(k); }
        3 => { let n = rng.range(1, 12) as usize; b.extend(rng.bytes(n)); }
        4 => { if b.len() > 24 { let i = 20 + rng.below((b.len() - 20) as u64) as usize; b[i] = rng.byte(); } }
        5 => { if b.len() >= 24 { b[22] = rng.byte() & 0x3; b[23] = rng.byte(); } }   // first attribute length
        6 => { if !b.is_empty() { b[0] = rng.byte(); } }
        7 => { if b.len() >= 8 { let i = 4 + rng.below(4) as usize; b[i] = rng.byte(); } }
        _ => { if !b.is_empty() { let i = rng.below(b.len() as u64) as usize; b[i] = rng.byte(); } }
    }
    b
}

fn err_matches(real: &StunParseError, r: &RefErr) -> bool {
    match (real, r) {
        (StunParseError::NotStun, RefErr::NotStun) => true,
        (StunParseError::Truncated { expected, actual }, RefErr::Truncated { expected: e, actual: a }) => expected == e && actual == a,
        (StunParseError::Truncated { .. }, RefErr::TruncatedInterior) => true,
        // excess bytes: the statement only requires refusal
        (_, RefErr::Excess) => true,
        (StunParseError::AttributeAfterIntegrity(t), RefErr::AfterIntegrity(u)) => t.value() == *u,
        (StunParseError::AttributeAfterFingerprint(t), RefErr::AfterFingerprint(u)) => t.value() == *u,
        (StunParseError::FingerprintMismatch, RefErr::FingerprintMismatch) => true,
        // a FINGERPRINT whose length is not 4: the statement does not say how it is reported (length error or mismatch)
        (StunParseError::Truncated { .. }, RefErr::FingerprintMalformed) | (StunParseError::TooLarge { .. }, RefErr::FingerprintMalformed) | (StunParseError::FingerprintMismatch, RefErr::FingerprintMalformed) => true,
        _ => false,
    }
}

pub struct Flags { pub c01: bool, pub c02: bool, pub c04: bool, pub c10: bool, pub c16: bool }
impl Flags { pub fn all() -> Self { Flags { c01: true, c02: true, c04: true, c10: true, c16: true } } }

/// reference verdict for validate_integrity under `key`: (has_any, all_correct, mi_ok, mi256_ok) over *all* integrity attributes present
pub fn integrity_facts(b: &[u8], r: &RefMsg, key: &[u8]) -> (bool, bool, Option<bool>, Option<bool>) {
    let mut mi_ok = None;
    let mut s_ok = None;
    for a in &r.attrs {
        let hdr = a.off - 4;
        if a.ty == MI {
            let ok = a.len == 20 && hmac_sha1(key, &refmsg::hmac_input(b, hdr, a.len))[..] == b[a.off..a.off + a.len];
            mi_ok = Some(ok);
        } else if a.ty == MI256 {
            let ok = a.len >= 16 && a.len <= 32 && a.len % 4 == 0 && hmac_sha256(key, &refmsg::hmac_input(b, hdr, a.len))[..a.len] == b[a.off..a.off + a.len];
            s_ok = Some(ok);
        }
    }
    let any = mi_ok.is_some() || s_ok.is_some();
    let all = mi_ok.unwrap_or(true) && s_ok.unwrap_or(true);
    (any, all, mi_ok, s_ok)
}

/// Runs every comparison on one buffer. `mode` is only used to build the witness string.
pub fn check_buffer(rep: &mut Report, mode: &str, b: &[u8], key: &[u8], creds: &MessageIntegrityCredentials, fl: &Flags, rng: &mut Rng) {
    let wit = format!("{}:msg:{}", mode, hex(b));
    let reference = refmsg::decode(b);
    let real = match catch(|| Message::from_bytes(b).map(|_| ())) {
        Ok(r) => r,
        Err(p) => { rep.violate("C01:from_bytes:panic", format!("Message::from_bytes panicked: {} on {}", p, hex_short(b)), wit); return; }
    };
    // C01: the other decoding entry points on the same bytes
    if fl.c01 {
        let bb = b.to_vec();
        if let Err(p) = catch(move || { let _ = MessageHeader::from_bytes(&bb); let _ = MessageType::from_bytes(&bb); let _ = RawAttribute::from_bytes(&bb); if bb.len() > 20 { let _ = RawAttribute::from_bytes(&bb[20..]); } }) {
            rep.violate("C01:decoders:panic", format!("header/type/raw decoder panicked: {} on {}", p, hex_short(b)), wit.clone());
        }
    }
    let nontrivial = reference.is_ok() || b.len() >= 20;
    rep.case(nontrivial, b);
    match (&real, &reference) {
        (Ok(()), Err(e)) => {
            if fl.c02 { rep.violate("C02:accepts-malformed", format!("parser accepted a buffer the reference refuses ({:?}): {}", e, hex_short(b)), wit.clone()); }
            // C10 speaks about *every accepted message*: judge the exposure rule on the structural walk
            if fl.c10 {
                if let Some((attrs, exposed)) = refmsg::walk_lenient(b) {
                    let bb = b.to_vec();
                    if let Some(got) = with_timeout(5, move || Message::from_bytes(&bb).unwrap().iter_attributes().map(|a| (a.get_type().value(), a.value.to_vec())).take(70000).collect::<Vec<_>>()) {
                        let want: Vec<(u16, Vec<u8>)> = exposed.iter().map(|&i| (attrs[i].ty, b[attrs[i].off..attrs[i].off + attrs[i].len].to_vec())).collect();
                        if got != want { rep.violate("C10:exposed-stream", format!("accepted message exposes {:x?}, the statement's rule gives {:x?} for {}", got.iter().map(|x| x.0).collect::<Vec<_>>(), want.iter().map(|x| x.0).collect::<Vec<_>>(), hex_short(b)), wit); }
                    }
                }
            }
            return;
        }
        (Err(e), Ok(_)) => { if fl.c02 { rep.violate("C02:refuses-wellformed", format!("parser refused a well-formed message with {:?}: {}", e, hex_short(b)), wit); } return; }
        (Err(e), Err(_r)) => {
            // any cause that truthfully applies is accepted (the statement fixes neither precedence nor the order of independent checks)
            let all = refmsg::causes(b);
            if fl.c02 && !all.iter().any(|r| err_matches(e, r)) { rep.violate("C02:wrong-cause", format!("rejection names {:?}, but the causes that apply are {:?}: {}", e, all, hex_short(b)), wit); }
            return;
        }
        (Ok(()), Ok(_)) => {}
    }
    let r = reference.unwrap();
    let msg = Message::from_bytes(b).unwrap();
    // ---- C02 faithful exposure
    if fl.c02 {
        let cls = match msg.class() { MessageClass::Request => 0u8, MessageClass::Indication => 1, MessageClass::Success => 2, MessageClass::Error => 3 };
        let tid: u128 = msg.transaction_id().into();
        if cls != r.class || msg.method() != r.method || tid != r.tid {
            rep.violate("C02:header-fields", format!("class/method/tid differ from the buffer: got ({},{:#x},{:#x}) want ({},{:#x},{:#x})", cls, msg.method(), tid, r.class, r.method, r.tid), wit.clone());
        }
    }
    // ---- C10 / C02 exposed stream (with hang protection: bounded number of items)
    let bb = b.to_vec();
    let items = with_timeout(5, move || {
        let m = Message::from_bytes(&bb).unwrap();
        let mut v = vec![];
        for a in m.iter_attributes() { v.push((a.get_type().value(), a.value.to_vec(), a.length())); if v.len() > 70000 { break; } }
        v
    });
    let items = match items {
        Some(v) => v,
        None => { rep.violate("C01:iter:hang", format!("attribute iteration did not terminate on {}", hex_short(b)), wit); rep.finish_and_exit(); }
    };
    let want: Vec<(u16, Vec<u8>)> = r.exposed.iter().map(|&i| (r.attrs[i].ty, b[r.attrs[i].off..r.attrs[i].off + r.attrs[i].len].to_vec())).collect();
    let got: Vec<(u16, Vec<u8>)> = items.iter().map(|x| (x.0, x.1.clone())).collect();
    if (fl.c10 || fl.c02) && got != want {
        let key_ = if mode == "c10" || !fl.c02 { "C10:exposed-stream" } else { "C02:exposed-stream" };
        rep.violate(key_, format!("iteration exposes {:x?}, the statement's rule gives {:x?} for {}", got.iter().map(|x| x.0).collect::<Vec<_>>(), want.iter().map(|x| x.0).collect::<Vec<_>>(), hex_short(b)), wit.clone());
    }
    if fl.c02 || fl.c10 {
        let mut tys: Vec<u16> = r.attrs.iter().map(|a| a.ty).collect();
        tys.extend_from_slice(&[MI, MI256, FP, 0x8022, 0x0006, 0x4321]);
        tys.sort(); tys.dedup();
        for t in tys {
            let first = want.iter().find(|x| x.0 == t);
            let bb = b.to_vec();
            let res = with_timeout(5, move || { let m = Message::from_bytes(&bb).unwrap(); (m.has_attribute(t.into()), m.raw_attribute(t.into()).map(|a| (a.get_type().value(), a.value.to_vec()))) });
            let Some((has, raw)) = res else { rep.violate("C01:lookup:hang", format!("lookup did not terminate on {}", hex_short(b)), wit.clone()); rep.finish_and_exit(); };
            if has != first.is_some() || raw.as_ref() != first {
                rep.violate(if mode == "c10" { "C10:lookup-vs-exposed" } else { "C02:lookup-first-match" }, format!("lookup of type {:#06x}: has={} raw={:x?}, first exposed match is {:x?} in {}", t, has, raw.map(|x| x.1), first.map(|x| &x.1), hex_short(b)), wit.clone());
            }
        }
        // typed lookups agree with the first match
        macro_rules! typed { ($T:ty) => {{
            let first = want.iter().find(|x| x.0 == <$T>::TYPE.value());
            let got = msg.attribute::<$T>();
            match (first, &got) {
                (None, Err(StunParseError::MissingAttribute(t))) if *t == <$T>::TYPE => {}
                (Some(f), g) => {
                    let raw = RawAttribute::new(<$T>::TYPE, &f.1);
                    let want_t = <$T>::from_raw(&raw);
                    let same = match (&want_t, g) { (Ok(a), Ok(b)) => a == b, (Err(a), Err(b)) => std::mem::discriminant(a) == std::mem::discriminant(b), _ => false };
                    if !same { rep.violate(if mode == "c10" { "C10:typed-lookup" } else { "C02:typed-lookup" }, format!("attribute::<{}>() = {:?} but decoding the first exposed match gives {:?} in {}", stringify!($T), g, want_t, hex_short(b)), wit.clone()); }
                }
                (None, g) => { rep.violate(if mode == "c10" { "C10:typed-lookup" } else { "C02:typed-lookup" }, format!("attribute::<{}>() = {:?} but no such attribute is exposed in {}", stringify!($T), g, hex_short(b)), wit.clone()); }
            }
        }}; }
        typed!(Software); typed!(Priority); typed!(Username); typed!(Fingerprint); typed!(MessageIntegritySha256); typed!(ErrorCode); typed!(XorMappedAddress);
    }
    // ---- C04 / C10: integrity validation
    if fl.c04 {
        let (any, all_ok, mi_ok, s_ok) = integrity_facts(b, &r, key);
        let bb = b.to_vec();
        let c2 = creds.clone();
        let res = with_timeout(5, move || catch(move || Message::from_bytes(&bb).unwrap().validate_integrity(&c2).map_err(|e| format!("{:?}", e))));
        match res {
            None => { rep.violate("C01:validate:hang", format!("validate_integrity did not terminate on {}", hex_short(b)), wit.clone()); rep.finish_and_exit(); }
            Some(Err(p)) => rep.violate("C01:validate:panic", format!("validate_integrity panicked: {} on {}", p, hex_short(b)), wit.clone()),
            Some(Ok(v)) => {
                match &v {
                    Ok(IntegrityAlgorithm::Sha1) => if mi_ok != Some(true) { rep.violate("C04:ok-without-correct-attr", format!("validate_integrity = Ok(Sha1) but MESSAGE-INTEGRITY is {:?} in {}", mi_ok, hex_short(b)), wit.clone()); },
                    Ok(IntegrityAlgorithm::Sha256) => if s_ok != Some(true) { rep.violate("C04:ok-without-correct-attr", format!("validate_integrity = Ok(Sha256) but MESSAGE-INTEGRITY-SHA256 is {:?} in {}", s_ok, hex_short(b)), wit.clone()); },
                    Err(e) => {
                        if any && all_ok { rep.violate("C04:fails-although-correct", format!("validate_integrity = Err({}) although every integrity attribute present is correct: {}", e, hex_short(b)), wit.clone()); }
                        if !any && !e.starts_with("MissingAttribute") { rep.violate("C04:missing-not-reported", format!("no integrity attribute but validate_integrity = Err({}) in {}", e, hex_short(b)), wit.clone()); }
                    }
                }
                if !any && v.is_ok() { rep.violate("C04:ok-without-correct-attr", format!("validate_integrity = {:?} on a message without integrity attribute {}", v, hex_short(b)), wit.clone()); }
            }
        }
    }
    // ---- C01: formatting and policing never panic; C16 verdict
    if fl.c01 || fl.c16 {
        let present: Vec<u16> = want.iter().map(|x| x.0).collect();
        let mut pool = present.clone();
        pool.extend_from_slice(&[0x0006, 0x8022, 0x7fff, 0x8000, 0x0024]);
        let supported: Vec<u16> = pool.iter().filter(|_| rng.coin()).cloned().collect();
        let required: Vec<u16> = pool.iter().filter(|_| rng.below(4) == 0).cloned().collect();
        let bb = b.to_vec();
        let (s2, r2) = (supported.clone(), required.clone());
        let res = with_timeout(5, move || catch(move || {
            let m = Message::from_bytes(&bb).unwrap();
            let _ = format!("{} {:?}", m, m);
            for a in m.iter_attributes() { let _ = format!("{} {:?}", a, a); }
            let sup: Vec<AttributeType> = s2.iter().map(|&t| t.into()).collect();
            let req: Vec<AttributeType> = r2.iter().map(|&t| t.into()).collect();
            Message::check_attribute_types(&m, &sup, &req).map(|b| b.build())
        }));
        match res {
            None => { rep.violate("C01:inspect:hang", format!("formatting/policing did not terminate on {}", hex_short(b)), wit.clone()); rep.finish_and_exit(); }
            Some(Err(p)) => {
                let nonreq = r.class != 0;
                if nonreq && p.contains("non-request message") {
                    rep.violate("C01:check_attribute_types:non-request:builder_error-panic", format!("check_attribute_types panics on an accepted non-request message ({}): {}", p, hex_short(b)), wit.clone());
                } else {
                    rep.violate("C01:inspect:panic", format!("Display/Debug/check_attribute_types panicked: {} on {}", p, hex_short(b)), wit.clone());
                }
            }
            Some(Ok(resp)) => {
                if fl.c16 && r.class == 0 { crate::modes::check_policing(rep, mode, b, &r, &present, &supported, &required, resp); }
            }
        }
    }
}
