//! small utilities: deterministic PRNG, hex, report collection, watchdog
use std::collections::HashSet;
use std::sync::{Arc, Mutex};

#[derive(Clone)]
pub struct Rng(pub u64);
impl Rng {
    pub fn new(seed: u64) -> Self { Rng(seed.wrapping_mul(0x9E3779B97F4A7C15) ^ 0xD1B54A32D192ED03) }
    pub fn next(&mut self) -> u64 {
        // splitmix64
        self.0 = self.0.wrapping_add(0x9E3779B97F4A7C15);
        let mut z = self.0;
        z = (z ^ (z >> 30)).wrapping_mul(0xBF58476D1CE4E5B9);
        z = (z ^ (z >> 27)).wrapping_mul(0x94D049BB133111EB);
        z ^ (z >> 31)
    }
    pub fn below(&mut self, n: u64) -> u64 { if n == 0 { 0 } else { self.next() % n } }
    pub fn range(&mut self, a: u64, b: u64) -> u64 { a + self.below(b - a + 1) }
    pub fn coin(&mut self) -> bool { self.next() & 1 == 1 }
    pub fn byte(&mut self) -> u8 { self.next() as u8 }
    pub fn bytes(&mut self, n: usize) -> Vec<u8> { (0..n).map(|_| self.byte()).collect() }
    pub fn pick<'a, T>(&mut self, v: &'a [T]) -> &'a T { &v[self.below(v.len() as u64) as usize] }
}

pub fn hex(b: &[u8]) -> String { b.iter().map(|x| format!("{:02x}", x)).collect() }
pub fn unhex(s: &str) -> Vec<u8> {
    let s = s.trim();
    (0..s.len() / 2).map(|i| u8::from_str_radix(&s[2 * i..2 * i + 2], 16).unwrap()).collect()
}
pub fn hex_short(b: &[u8]) -> String { if b.len() <= 96 { hex(b) } else { format!("{}..({} bytes)..{}", hex(&b[..48]), b.len(), hex(&b[b.len() - 16..])) } }

pub fn jstr(s: &str) -> String {
    let mut o = String::from("\"");
    for c in s.chars() {
        match c {
            '"' => o.push_str("\\\""),
            '\\' => o.push_str("\\\\"),
            '\n' => o.push_str("\\n"),
            '\r' => o.push_str("\\r"),
            '\t' => o.push_str("\\t"),
            c if (c as u32) < 0x20 => o.push_str(&format!("\\u{:04x}", c as u32)),
            c => o.push(c),
        }
    }
    o.push('"');
    o
}

#[derive(Clone, Debug)]
pub struct Violation {
    /// stable identifier of the *kind* of failure (used for known-findings matching)
    pub key: String,
    pub what: String,
    /// concrete witness that `bx replay` can re-run: "<mode>:<payload>"
    pub witness: String,
}

#[derive(Default)]
pub struct Report {
    pub mode: String,
    pub evaluations: u64,
    pub distinct: HashSet<u64>,
    pub violations: Vec<Violation>,
    pub samples: Vec<String>,
    pub rule: String,
    pub exhaustive: bool,
    pub notes: Vec<String>,
}

impl Report {
    pub fn new(mode: &str, rule: &str) -> Self { Report { mode: mode.into(), rule: rule.into(), ..Default::default() } }
    pub fn case(&mut self, nontrivial: bool, fingerprint: &[u8]) {
        self.evaluations += 1;
        if nontrivial { self.distinct.insert(fnv(fingerprint)); }
    }
    pub fn sample(&mut self, s: String) { if self.samples.len() < 6 { self.samples.push(s); } }
    pub fn violate(&mut self, key: &str, what: String, witness: String) {
        if self.violations.len() < 50 && !self.violations.iter().any(|v| v.key == key && self.violations.len() > 8) {
            self.violations.push(Violation { key: key.into(), what, witness });
        }
    }
    /// a hang leaves a spinning thread behind: report what we have and leave the process at once
    pub fn finish_and_exit(&self) -> ! {
        println!("{}", self.to_json());
        std::process::exit(0);
    }
    pub fn to_json(&self) -> String {
        let v: Vec<String> = self.violations.iter().map(|v| format!("{{\"key\":{},\"what\":{},\"witness\":{}}}", jstr(&v.key), jstr(&v.what), jstr(&v.witness))).collect();
        let s: Vec<String> = self.samples.iter().map(|x| jstr(x)).collect();
        let n: Vec<String> = self.notes.iter().map(|x| jstr(x)).collect();
        format!("{{\"mode\":{},\"evaluations\":{},\"distinct_nontrivial\":{},\"rule\":{},\"exhaustive\":{},\"violations\":[{}],\"samples\":[{}],\"notes\":[{}]}}",
            jstr(&self.mode), self.evaluations, self.distinct.len(), jstr(&self.rule), self.exhaustive, v.join(","), s.join(","), n.join(","))
    }
}

pub fn fnv(b: &[u8]) -> u64 {
    let mut h: u64 = 0xcbf29ce484222325;
    for x in b { h ^= *x as u64; h = h.wrapping_mul(0x100000001b3); }
    h
}

/// location and message of the most recent panic on any thread (recorded by the hook installed in main)
pub static LAST_PANIC: Mutex<Option<(String, String)>> = Mutex::new(None);
pub fn install_panic_recorder(verbose: bool) {
    let prev = std::panic::take_hook();
    std::panic::set_hook(Box::new(move |info| {
        let loc = info.location().map(|l| format!("{}:{}:{}", l.file(), l.line(), l.column())).unwrap_or_default();
        let msg = if let Some(s) = info.payload().downcast_ref::<&str>() { s.to_string() } else if let Some(s) = info.payload().downcast_ref::<String>() { s.clone() } else { "panic".to_string() };
        if let Ok(mut g) = LAST_PANIC.lock() { *g = Some((loc, msg)); }
        if verbose { prev(info); }
    }));
}

/// Outcome of a watched run: finished, did not finish in time, or the thread died of a panic that no `catch` guarded
pub enum Watched<T> { Done(T), TimedOut, Panicked(String) }

/// Runs `f` on another thread (64 MiB stack); a hang leaves the thread leaked.
pub fn watch<T: Send + 'static>(secs: u64, f: impl FnOnce() -> T + Send + 'static) -> Watched<T> {
    let slot: Arc<Mutex<Option<Result<T, String>>>> = Arc::new(Mutex::new(None));
    let s2 = slot.clone();
    let (tx, rx) = std::sync::mpsc::channel::<()>();
    std::thread::Builder::new().stack_size(64 << 20).spawn(move || {
        let r = catch(std::panic::AssertUnwindSafe(f));
        *s2.lock().unwrap() = Some(r);
        let _ = tx.send(());
    }).unwrap();
    match rx.recv_timeout(std::time::Duration::from_secs(secs)) {
        Ok(()) => match slot.lock().unwrap().take() { Some(Ok(t)) => Watched::Done(t), Some(Err(m)) => Watched::Panicked(m), None => Watched::Panicked("no result".into()) },
        Err(std::sync::mpsc::RecvTimeoutError::Timeout) => Watched::TimedOut,
        Err(_) => Watched::Panicked("worker thread died".into()),
    }
}

/// Runs `f` on another thread; returns None if it does not finish within `secs` (hang) - the thread is leaked.
/// A panic inside `f` is re-raised on the calling thread (it is not a hang).
pub fn with_timeout<T: Send + 'static>(secs: u64, f: impl FnOnce() -> T + Send + 'static) -> Option<T> {
    match watch(secs, f) { Watched::Done(t) => Some(t), Watched::TimedOut => None, Watched::Panicked(m) => std::panic::resume_unwind(Box::new(m)) }
}

/// catch_unwind wrapper that returns the panic message
pub fn catch<T>(f: impl FnOnce() -> T + std::panic::UnwindSafe) -> Result<T, String> {
    std::panic::catch_unwind(f).map_err(|e| {
        if let Some(s) = e.downcast_ref::<&str>() { s.to_string() } else if let Some(s) = e.downcast_ref::<String>() { s.clone() } else { "panic".to_string() }
    })
}
