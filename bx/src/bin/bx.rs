//! bx <mode> <tier> <seed>        run one bounded stand-in mode, print a JSON report on the last line
//! bx replay <witness>            re-run one witness against the real code; exit 1 if it still fails
//! bx selftest                    reference crypto against published vectors
use bx::util::*;
use bx::*;
use stun_types::TransportType;

fn run_mode(mode: &str, tier: &str, seed: u64) -> Option<Report> {
    Some(match mode {
        "c01" => modes::c01(tier, seed), "c02" => modes::c02(tier, seed), "c03" => modes2::c03(tier, seed), "c04" => modes::c04(tier, seed),
        "c05" => agentmodes::c05(tier, seed), "c06" => agentmodes::c06(tier, seed), "c07" => agentmodes::c07(tier, seed), "c08" => modes2::c08(tier, seed),
        "c09" => modes::c09(tier, seed), "c10" => modes::c10(tier, seed), "c11" => modes2::c11(tier, seed), "c12" => modes2::c12(tier, seed),
        "c13" => modes2::c13(tier, seed), "c14" => agentmodes::c14(tier, seed), "c15" => agentmodes::c15(tier, seed), "c16" => modes::c16(tier, seed),
        "c17" => modes::c17(tier, seed), "c18" => agentmodes::c18(tier, seed), "c19" => modes2::c19(tier, seed), "c20" => agentmodes::c20(tier, seed),
        _ => return None,
    })
}

fn main() {
    let args: Vec<String> = std::env::args().collect();
    // panics inside catch() are expected; keep stderr quiet
    bx::util::install_panic_recorder(std::env::var("BX_PANIC_VERBOSE").is_ok());
    if args.len() >= 2 && args[1] == "selftest" {
        match refcrypto::selftest() { Ok(()) => { println!("selftest ok"); } Err(e) => { println!("selftest FAILED: {}", e); std::process::exit(2); } }
        // print digests of fixed inputs so that setup can compare them with python hashlib / zlib
        for n in [0usize, 1, 55, 56, 63, 64, 65, 1000] {
            let d: Vec<u8> = (0..n).map(|i| (i * 7 + 3) as u8).collect();
            println!("{} {} {} {} {:08x} {} {}", n, hex(&refcrypto::md5(&d)), hex(&refcrypto::sha1(&d)), hex(&refcrypto::sha256(&d)), refcrypto::crc32(&d), hex(&refcrypto::hmac_sha1(b"key", &d)), hex(&refcrypto::hmac_sha256(&d, &d)));
        }
        return;
    }
    if args.len() >= 3 && args[1] == "replay" {
        let w = args[2].clone();
        let parts: Vec<&str> = w.splitn(3, ':').collect();
        let mode = parts[0].to_string();
        let mut rep = Report::new(&mode, "replay");
        if parts.len() == 3 && (parts[1] == "msg" || parts[1] == "trace" || parts[1] == "tamper" || parts[1] == "seal") {
            let hexpart = parts[2].rsplit(':').next().unwrap();
            let b = unhex(hexpart);
            let mut rng = Rng::new(1);
            let key = msgcheck::key_short("pass");
            let creds = msgcheck::creds_short("pass");
            let r = with_timeout(60, move || { let mut rep = Report::new("replay", "replay"); msgcheck::check_buffer(&mut rep, "replay", &b, &key, &creds, &msgcheck::Flags::all(), &mut rng); rep });
            match r { Some(r2) => rep.violations = r2.violations, None => rep.violate("hang", "replay did not terminate".into(), w.clone()) }
        } else if parts.len() == 3 && parts[1] == "history" {
            let f: Vec<&str> = parts[2].split(':').collect();
            let (seed, i, len): (u64, u64, usize) = (f[0].parse().unwrap(), f[1].parse().unwrap(), f[2].parse().unwrap());
            let transport = if f[3] == "tcp" { TransportType::Tcp } else { TransportType::Udp };
            let mut hr = Rng::new(seed ^ (i.wrapping_mul(0x9E37)));
            let h = agentmodes::gen_history(&mut hr, len);
            let mut errs = vec![];
            let trace = agentmodes::run_history(&h, transport, std::time::Instant::now(), &mut errs);
            for t in &trace { println!("  {}", t); }
            for (k, e) in errs { rep.violate(&k, e, w.clone()); }
        } else if parts.len() == 3 && parts[1] == "exh" {
            let f: Vec<&str> = parts[2].split(':').collect();
            let (d, idx): (usize, u64) = (f[0].parse().unwrap(), f[1].parse().unwrap());
            let transport = if f[2] == "tcp" { TransportType::Tcp } else { TransportType::Udp };
            let h = agentmodes::small_history(d, idx);
            let mut errs = vec![];
            let trace = agentmodes::run_history(&h, transport, std::time::Instant::now(), &mut errs);
            for t in &trace { println!("  {}", t); }
            for (k, e) in errs { rep.violate(&k, e, w.clone()); }
        } else {
            // generic: re-run the mode with the recorded seed (witness formats that embed only a case index)
            let seed: u64 = std::env::var("VERIF_SEED").ok().and_then(|s| s.parse().ok()).unwrap_or(1);
            let m2 = mode.clone();
            match bx::util::watch(600, move || run_mode(&m2, "quick", seed)) {
                bx::util::Watched::Done(Some(r)) => { rep.violations = r.violations; }
                bx::util::Watched::Done(None) => {}
                bx::util::Watched::TimedOut => rep.violate(&format!("{}:hang", mode.to_uppercase()), "the mode does not terminate".into(), w.clone()),
                bx::util::Watched::Panicked(m) => {
                    let (loc, msg) = bx::util::LAST_PANIC.lock().ok().and_then(|g| g.clone()).unwrap_or((String::new(), m));
                    if loc.contains("stun-types") || loc.contains("stun-proto") { rep.violate(&format!("{}:panic", mode.to_uppercase()), format!("the real code panicked at {}: {}", loc, msg), w.clone()); }
                    else { println!("stand-in expectation failed at {}: {}", loc, msg); }
                }
            }
        }
        for v in &rep.violations { println!("REPRODUCED {}: {}", v.key, v.what); }
        std::process::exit(if rep.violations.is_empty() { 0 } else { 1 });
    }
    if args.len() < 4 { eprintln!("usage: bx <mode> <tier> <seed>"); std::process::exit(2); }
    let (mode, tier, seed) = (args[1].clone(), args[2].clone(), args[3].parse::<u64>().unwrap_or(1));
    if let Err(e) = refcrypto::selftest() { println!("{{\"mode\":{},\"error\":{}}}", jstr(&mode), jstr(&format!("reference crypto self-test failed: {}", e))); std::process::exit(2); }
    let budget = if tier == "thorough" { 3000 } else { 420 };
    let (m2, t2) = (mode.clone(), tier.clone());
    match bx::util::watch(budget, move || run_mode(&m2, &t2, seed)) {
        bx::util::Watched::Done(Some(rep)) => { println!("{}", rep.to_json()); }
        bx::util::Watched::Done(None) => { eprintln!("unknown mode {}", mode); std::process::exit(2); }
        bx::util::Watched::TimedOut => {
            let mut rep = Report::new(&mode, "watchdog");
            rep.evaluations = 1;
            rep.violate(&format!("{}:hang", mode.to_uppercase()), format!("mode {} did not finish within {} s: an operation on the real code does not terminate (or is far too slow)", mode, budget), format!("{}:rerun", mode));
            println!("{}", rep.to_json());
        }
        bx::util::Watched::Panicked(m) => {
            // a panic that no guard of the stand-in expected.  Raised inside the library => the real code panicked on an
            // API use that never panics on the unchanged tree: a violation of the property whose operation it was.
            // Raised inside the stand-in (an unwrap/index on something the library returned) => the stand-in cannot
            // evaluate the property on this tree: undecided, never an alarm.
            let (loc, msg) = bx::util::LAST_PANIC.lock().ok().and_then(|g| g.clone()).unwrap_or((String::new(), m));
            let in_library = loc.contains("stun-types") || loc.contains("stun-proto");
            if in_library {
                let mut rep = Report::new(&mode, "watchdog");
                rep.evaluations = 1;
                rep.violate(&format!("{}:panic", mode.to_uppercase()), format!("mode {}: the real code panicked at {}: {}", mode, loc, msg), format!("{}:rerun", mode));
                println!("{}", rep.to_json());
            } else {
                println!("{{\"mode\":{},\"error\":{}}}", jstr(&mode), jstr(&format!("the stand-in could not evaluate this tree (its own expectation failed at {}: {})", loc, msg)));
            }
        }
    }
}
