use stun_types::attribute::*;
use stun_types::message::*;
use stun_proto::agent::*;
use stun_types::TransportType;
use std::time::{Duration, Instant};
use std::panic::catch_unwind;

fn main() {
    // D1
    let r = catch_unwind(|| MessageType::from_bytes(&[0u8][..]).is_ok());
    println!("D1 MessageType::from_bytes(1 byte) panicked={}", r.is_err());
    // D3 excess bytes
    let mut m = vec![0u8, 1, 0, 0, 0x21, 0x12, 0xa4, 0x42, 0,0,0,0,0,0,0,0,0,0,0,1];
    m.extend_from_slice(&[0x80, 0x22, 0, 1, b'x', 0, 0, 0]);
    let r = Message::from_bytes(&m);
    println!("D3 excess bytes accepted={} exposes software={}", r.is_ok(), r.as_ref().map(|m| m.has_attribute(Software::TYPE)).unwrap_or(false));
    // D4 [FP, MI]
    let mut b = Message::builder(MessageType::from_class_method(MessageClass::Request, BINDING), 1.into());
    b.add_fingerprint().unwrap();
    let mut bytes = b.build();
    // append a MI attribute (20 zero bytes) and fix length
    bytes.extend_from_slice(&[0, 8, 0, 20]); bytes.extend_from_slice(&[0u8; 20]);
    let l = (bytes.len() - 20) as u16; bytes[2] = (l >> 8) as u8; bytes[3] = l as u8;
    // fingerprint was computed with length covering only FP (8); from_bytes recomputes with offset+8-20 = 8 → still matches
    let r = Message::from_bytes(&bytes);
    println!("D4 [FP, MI] accepted={}", r.is_ok());
    // D5 [MI, MI256, FP]
    let creds: MessageIntegrityCredentials = ShortTermCredentials::new("p".to_owned()).into();
    let mut b = Message::builder(MessageType::from_class_method(MessageClass::Request, BINDING), 2.into());
    b.add_message_integrity(&creds, IntegrityAlgorithm::Sha1).unwrap();
    b.add_message_integrity(&creds, IntegrityAlgorithm::Sha256).unwrap();
    b.add_fingerprint().unwrap();
    let bytes = b.build();
    let msg = Message::from_bytes(&bytes).unwrap();
    let types: Vec<u16> = msg.iter_attributes().map(|a| a.get_type().value()).collect();
    println!("D5 [MI,MI256,FP] exposed types={:x?} has_fp={} validate={:?}", types, msg.has_attribute(Fingerprint::TYPE), msg.validate_integrity(&creds));
    // D2 overflow
    let big = vec![7u8; 65504];
    let mut b = Message::builder(MessageType::from_class_method(MessageClass::Request, BINDING), 3.into());
    b.add_raw_attribute(RawAttribute::new(0x8888.into(), &big)).unwrap();
    b.add_message_integrity(&creds, IntegrityAlgorithm::Sha1).unwrap();
    let bytes = b.build();
    println!("D2 len={}", bytes.len());
    let r = catch_unwind(|| { let msg = Message::from_bytes(&bytes).unwrap(); msg.validate_integrity(&creds).is_ok() });
    println!("D2 validate_integrity at offset 65528: {:?}", r.as_ref().map_err(|_| "PANIC"));
    // D8
    let mut b = Message::builder(MessageType::from_class_method(MessageClass::Indication, BINDING), 4.into());
    b.add_raw_attribute(RawAttribute::new(0x7777.into(), &[1])).unwrap();
    let bytes = b.build();
    let r = catch_unwind(|| { let msg = Message::from_bytes(&bytes).unwrap(); Message::check_attribute_types(&msg, &[], &[]).is_some() });
    println!("D8 check_attribute_types(indication w/ unknown attr): {:?}", r.as_ref().map_err(|_| "PANIC"));
    // D6
    let local = "10.0.0.1:1".parse().unwrap(); let remote = "10.0.0.2:2".parse().unwrap();
    let mut agent = StunAgent::builder(TransportType::Udp, local).build();
    let now = Instant::now();
    let msg = Message::builder(MessageType::from_class_method(MessageClass::Request, BINDING), 5.into());
    agent.send(msg, remote, now).unwrap();
    agent.mut_request_transaction(5.into()).unwrap().configure_timeout(Duration::from_secs(60), 8, Duration::from_secs(60));
    let mut t = now; let mut k = 0;
    loop {
        match agent.poll(t) {
            StunAgentPollRet::WaitUntil(w) => { println!("D6 k={} wait {:?}", k, w - t); if w - t == Duration::from_secs(3600) { let again = agent.poll(w); println!("D6 poll at t -> {:?}", matches!(again, StunAgentPollRet::WaitUntil(_))); break; } t = w; }
            StunAgentPollRet::SendData(_) => { k += 1; }
            _ => break,
        }
        if k > 9 { break; }
    }
    // D7
    let mut firsts = std::collections::HashSet::new();
    for _ in 0..20 {
        let mut agent = StunAgent::builder(TransportType::Udp, local).build();
        for id in 10u128..14 { let m = Message::builder(MessageType::from_class_method(MessageClass::Request, BINDING), id.into()); agent.send(m, remote, now).unwrap(); }
        if let StunAgentPollRet::SendData(tx) = agent.poll(now + Duration::from_millis(500)) { firsts.insert(tx.data()[19]); }
    }
    println!("D7 distinct first-served transactions over 20 agents: {:?}", firsts);
}
