//! bounded stand-in for the agent (C05 C06 C07 C14 C15 C18 C20): the real StunAgent / TcpBuffer step by step against
//! an abstract agent written from the property statements and RFC 8489 s6.2.1.
use crate::msgcheck::{creds_short, key_short};
use crate::refmsg;
use crate::util::*;
use std::collections::{BTreeMap, BTreeSet};
use std::net::SocketAddr;
use std::time::{Duration, Instant};
use stun_proto::agent::*;
use stun_types::attribute::*;
use stun_types::message::*;
use stun_types::TransportType;

// ------------------------------------------------------------------------------------------------ C14
pub fn c14(tier: &str, seed: u64) -> Report {
    let mut rep = Report::new("c14", "random frame lists (lengths 0, 1, 2, 3, 255, 256, 65533..65535 and random) x random chunkings (every split pattern for short streams) x random interleavings of push and pull: pulled sequence vs frames sent; a pull returns nothing exactly when no complete frame is buffered.");
    let mut rng = Rng::new(seed);
    for i in 0..crate::modes::n_cases(tier, 3000, 40000) {
        let nf = rng.range(1, 5) as usize;
        let frames: Vec<Vec<u8>> = (0..nf).map(|_| { let l = match rng.below(8) { 0 => 0, 1 => 1, 2 => 2, 3 => *rng.pick(&[65533u64, 65534, 65535, 255, 256, 257]), _ => rng.below(40) } as usize; rng.bytes(l) }).collect();
        let mut stream = vec![];
        for f in &frames { stream.extend_from_slice(&(f.len() as u16).to_be_bytes()); stream.extend_from_slice(f); }
        let mut tb = TcpBuffer::new();
        let mut model: Vec<u8> = vec![];   // bytes pushed and not yet consumed
        let mut pulled: Vec<Vec<u8>> = vec![];
        let mut pos = 0;
        let wit = format!("c14:case:{}:{}", seed, i);
        if i < 2 { rep.sample(format!("frames of lengths {:?}", frames.iter().map(|f| f.len()).collect::<Vec<_>>())); }
        rep.case(true, &stream);
        let mut guard = 0;
        loop {
            guard += 1;
            if guard > 100000 { break; }
            let push = pos < stream.len() && rng.below(3) != 0;
            if push {
                let n = if rng.coin() { rng.range(1, 3) } else { rng.range(1, (stream.len() - pos) as u64) } as usize;
                let n = n.min(stream.len() - pos);
                tb.push_data(&stream[pos..pos + n]);
                model.extend_from_slice(&stream[pos..pos + n]);
                pos += n;
            } else {
                let complete = model.len() >= 2 && model.len() >= 2 + refmsg::be16(&model, 0) as usize;
                match tb.pull_data() {
                    Some(v) => {
                        if !complete { rep.violate("C14:pull-incomplete", format!("pull returned {} bytes although no complete frame is buffered ({} bytes)", v.len(), model.len()), wit.clone()); break; }
                        let n = refmsg::be16(&model, 0) as usize;
                        if v != model[2..2 + n] { rep.violate("C14:frame-altered", format!("pulled frame of {} bytes differs from the next frame sent ({} bytes)", v.len(), n), wit.clone()); break; }
                        model.drain(..2 + n);
                        pulled.push(v);
                    }
                    None => {
                        if complete { rep.violate("C14:pull-none", format!("pull returned nothing although a complete frame of {} bytes is buffered", refmsg::be16(&model, 0)), wit.clone()); break; }
                        if pos >= stream.len() { break; }
                    }
                }
            }
        }
        if rep.violations.is_empty() && pulled != frames { rep.violate("C14:sequence", format!("pulled {} frames, sent {}", pulled.len(), frames.len()), wit.clone()); }
    }
    rep
}

// ------------------------------------------------------------------------------------------------ abstract agent
#[derive(Clone, Debug)]
struct MReq { bytes: Vec<u8>, to: SocketAddr, sched: Vec<u64>, last_timeout: u64, ti: usize, last_send: Option<u64>, send_c: bool, recv_c: bool, had_creds: bool }
#[derive(Clone, Debug)]
struct MAgent { transport: TransportType, local: SocketAddr, out: BTreeMap<u128, MReq>, peers: BTreeSet<SocketAddr>, remote_key: Option<Vec<u8>> }

#[derive(Clone, Debug, PartialEq)]
enum Verdict { Cancelled, Send, Wait(u64), TimedOut,
    /// retransmissions were cancelled: the statements only say that nothing further is transmitted and that the transaction ends
    /// exactly once - WHEN it ends (at the next retransmission slot, after the remaining schedule, ...) is not pinned
    Free }

impl MReq {
    fn due(&self) -> Option<u64> { self.last_send.map(|l| l + if self.ti >= self.sched.len() { self.last_timeout } else { self.sched[self.ti] }) }
    /// what serving this request at `now` must produce (RFC 8489 s6.2.1 / statement of C06), without changing it
    fn verdict(&self, now: u64) -> Verdict {
        if self.recv_c { return Verdict::Cancelled; }
        if let Some(d) = self.due() {
            if now < d { return Verdict::Wait(d); }
            if self.ti >= self.sched.len() { return Verdict::TimedOut; }
        }
        if self.send_c { Verdict::Cancelled } else { Verdict::Send }
    }
    /// the verdict as far as the statements pin it
    fn pinned(&self, now: u64) -> Verdict { if self.send_c && !self.recv_c { Verdict::Free } else { self.verdict(now) } }
    /// the instant by which the whole remaining schedule (remaining retransmission intervals + final timeout) has run out; a transaction
    /// whose retransmissions were cancelled must have ended by then at the latest (C05: every request ends)
    fn schedule_end(&self) -> Option<u64> {
        self.last_send.map(|l| l + self.sched.iter().skip(self.ti).sum::<u64>() + self.last_timeout)
    }
}

#[derive(Clone, Debug)]
pub enum AOp {
    Send { t: usize, class: u8, sealed: u8, to: usize },
    PollAt(PollWhen),
    Handle { kind: u8, t: usize, from: usize },
    Cancel(usize), CancelRetrans(usize),
    Configure { t: usize, rto: u64, n: u32, last: u64 },
    SetRemote(u8),
}
#[derive(Clone, Debug)]
pub enum PollWhen { Now, Early, Exact, Late(u64), Far }

const TIDS: [u128; 3] = [0x1111, 0x2222_0000_0000_0000_0000_0001, 0xffff_ffff_ffff_ffff_ffff_ffff];
// index 4: an IPv4-mapped IPv6 address - a different SocketAddr from 10.0.0.2:3478 (a destination must never be "canonicalised", round 6)
fn addr(i: usize) -> SocketAddr { ["10.0.0.2:3478", "10.0.0.3:3478", "[2001:db8::7]:5000", "10.0.0.2:9", "[::ffff:10.0.0.2]:3478"][i % 5].parse().unwrap() }
fn local() -> SocketAddr { "10.0.0.1:1000".parse().unwrap() }
const KEYS: [&str; 2] = ["remote-key", "other-key"];

pub fn gen_history(rng: &mut Rng, len: usize) -> Vec<AOp> {
    let mut h = vec![];
    for _ in 0..len {
        h.push(match rng.below(16) {
            0 | 1 | 2 => AOp::Send { t: rng.below(3) as usize, class: if rng.below(5) == 0 { rng.range(1, 3) as u8 } else { 0 }, sealed: rng.below(3) as u8, to: rng.below(5) as usize },
            3 | 4 | 5 | 6 | 7 => AOp::PollAt(match rng.below(6) { 0 => PollWhen::Now, 1 => PollWhen::Early, 2 | 3 => PollWhen::Exact, 4 => PollWhen::Late(rng.range(1, 5000)), _ => PollWhen::Far }),
            8 | 9 | 10 => AOp::Handle { kind: rng.below(11) as u8, t: rng.below(3) as usize, from: rng.below(5) as usize },
            11 => AOp::Cancel(rng.below(3) as usize),
            12 => AOp::CancelRetrans(rng.below(3) as usize),
            13 | 14 => AOp::Configure { t: rng.below(3) as usize, rto: *rng.pick(&[1u64, 100, 500, 1000, 60000, 7]), n: rng.below(9) as u32, last: *rng.pick(&[0u64, 1, 300, 8000, 60000]) },
            _ => AOp::SetRemote(rng.below(3) as u8),
        });
    }
    h
}

fn build_request(t: u128, class: u8, sealed: u8) -> (MessageBuilder<'static>, bool) {
    let cls = [MessageClass::Request, MessageClass::Indication, MessageClass::Success, MessageClass::Error][class as usize];
    let mut b = Message::builder(MessageType::from_class_method(cls, 1), t.into());
    let sw = Software::new("bx-agent").unwrap();
    b.add_attribute(&sw).unwrap();
    let mut b = b.into_owned();
    let lk = creds_short("local-key");
    match sealed { 1 => b.add_message_integrity(&lk, IntegrityAlgorithm::Sha1).unwrap(), 2 => b.add_message_integrity(&lk, IntegrityAlgorithm::Sha256).unwrap(), _ => {} }
    (b, sealed != 0)
}

/// response bytes of the given kind for transaction t
fn build_incoming(kind: u8, t: u128) -> Vec<u8> {
    // kinds: 0 valid SHA-1 under remote-key, 1 valid SHA-256 under remote-key, 2 signed with other-key, 3 unsigned success, 4 corrupted MAC,
    //        5 unknown transaction id (unsigned), 6 incoming request, 7 indication, 8 error response signed with remote-key + fingerprint,
    //        9 response with a MESSAGE-INTEGRITY of illegal length (16), 10 response with a MESSAGE-INTEGRITY-SHA256 of illegal length (12)
    let (class, tid) = match kind { 5 => (2u8, t ^ 0x5555), 6 => (0, t), 7 => (1, t), 8 => (3, t), _ => (2, t) };
    let mut m = refmsg::encode(class, 1, tid, &[(0x8022, b"peer".to_vec())]);
    match kind {
        0 => refmsg::add_integrity(&mut m, &key_short(KEYS[0]), false, 20),
        1 => refmsg::add_integrity(&mut m, &key_short(KEYS[0]), true, 32),
        2 => refmsg::add_integrity(&mut m, &key_short(KEYS[1]), false, 20),
        4 => { refmsg::add_integrity(&mut m, &key_short(KEYS[0]), false, 20); let l = m.len(); m[l - 3] ^= 0x40; }
        8 => { refmsg::add_integrity(&mut m, &key_short(KEYS[0]), true, 16); refmsg::add_fingerprint(&mut m); }
        9 => crate::msgcheck::append_attr(&mut m, refmsg::MI, &[7u8; 16]),
        10 => crate::msgcheck::append_attr(&mut m, refmsg::MI256, &[7u8; 12]),
        _ => {}
    }
    m
}
fn incoming_valid_under(kind: u8, key: &Option<Vec<u8>>) -> bool {
    match (kind, key) {
        (0 | 1 | 8, Some(k)) => *k == key_short(KEYS[0]),
        (2, Some(k)) => *k == key_short(KEYS[1]),
        _ => false,
    }
}

/// Runs a history on a fresh real agent (instants = base + offset) and, step by step, on the abstract agent.
/// Returns the reply trace (with instants as offsets from `base`); mismatches are pushed to `errs` as (key, text).
pub fn run_history(h: &[AOp], transport: TransportType, base: Instant, errs: &mut Vec<(String, String)>) -> Vec<String> {
    // every other history runs on an agent built with a configured remote address (different from most destinations): C18 pins the
    // destination given at send time for every transmission, whatever the agent was configured with (round 7)
    let mut agent = if h.len() % 2 == 1 { StunAgent::builder(transport, local()).remote_addr(addr(1)).build() } else { StunAgent::builder(transport, local()).build() };
    let mut m = MAgent { transport, local: local(), out: BTreeMap::new(), peers: BTreeSet::new(), remote_key: None };
    let mut now: u64 = 0;
    let mut trace = vec![];
    // model time is in MICROseconds (sub-millisecond poll lateness must not disturb the schedule)
    let at = |us: u64| base + Duration::from_micros(us);
    let rel = |i: Instant| i.duration_since(base).as_micros() as u64;
    let mut last_wait: Option<u64> = None;
    let mut last_wait_epoch: Option<u64> = None;
    let mut epoch: u64 = 0;
    macro_rules! bad { ($k:expr, $($a:tt)*) => { if errs.len() < 5 { errs.push(($k.to_string(), format!("step {}: {}", trace.len(), format!($($a)*)))); } } }
    for op in h {
        if !matches!(op, AOp::PollAt(_)) { epoch += 1; }
        match op {
            AOp::Send { t, class, sealed, to } => {
                let tid = TIDS[*t];
                let (b, had) = build_request(tid, *class, *sealed);
                let bytes = b.build();
                let res = agent.send(b, addr(*to), at(now)).map(|tx| (tx.data().to_vec(), tx.transport, tx.from, tx.to));
                let dup = *class == 0 && m.out.contains_key(&tid);
                match (&res, dup) {
                    (Err(StunError::AlreadyInProgress), true) => { trace.push(format!("send({:#x}) -> AlreadyInProgress", tid)); }
                    (Ok(tx), false) => {
                        if tx.0 != bytes || tx.1 != transport || tx.2 != local() || tx.3 != addr(*to) { bad!("C18:first-transmit", "send returned a transmit that is not the unmodified message from local to the destination"); }
                        trace.push(format!("send({:#x}) -> transmit {} bytes to {}", tid, tx.0.len(), tx.3));
                        if *class == 0 {
                            let (sched, lt) = if transport == TransportType::Udp { (vec![500_000, 1_000_000, 2_000_000, 4_000_000, 8_000_000, 16_000_000], 8_000_000) } else { (vec![], 39_500_000) };
                            m.out.insert(tid, MReq { bytes, to: addr(*to), sched, last_timeout: lt, ti: 0, last_send: Some(now), send_c: false, recv_c: false, had_creds: had });
                        }
                    }
                    (r, d) => { bad!("C05:send", "send of id {:#x} (already outstanding: {}) returned {:?}", tid, d, r.as_ref().map(|_| "Ok").map_err(|e| format!("{:?}", e))); trace.push("send -> ?".into()); }
                }
            }
            AOp::PollAt(when) => {
                let min_due = m.out.values().filter(|r| !r.recv_c).filter_map(|r| r.due()).min();
                now = match when {
                    PollWhen::Now => now,
                    PollWhen::Early => match min_due { Some(d) if d > now + 1 => now + (d - now) / 2, _ => now },
                    PollWhen::Exact => match last_wait.or(min_due) { Some(d) if d >= now => d, _ => now },
                    PollWhen::Late(x) => { let late = x * 1000 + (trace.len() as u64 * 137) % 1000; match min_due { Some(d) if d >= now => d + late, _ => now + late } }
                    PollWhen::Far => now + 50_000_000,
                };
                let ret = agent.poll(at(now));
                let verdicts: Vec<(u128, Verdict)> = m.out.iter().map(|(k, r)| (*k, r.pinned(now))).collect();
                // C06, generic law: after WaitUntil(t) and no other call in between, an earlier poll repeats t and a poll at or after t yields an event
                let law = if last_wait_epoch == Some(epoch) { last_wait } else { None };
                match ret {
                    StunAgentPollRet::WaitUntil(w) => {
                        let w = rel(w);
                        trace.push(format!("poll@{} -> WaitUntil({})", now, w));
                        if !m.out.is_empty() {
                            let waits: Vec<u64> = verdicts.iter().filter_map(|(_, v)| if let Verdict::Wait(d) = v { Some(*d) } else { None }).collect();
                            let free = verdicts.iter().filter(|(_, v)| *v == Verdict::Free).count();
                            if waits.len() + free != verdicts.len() { bad!("C06:wait-although-serviceable", "poll@{} answered WaitUntil({}) although a transaction needs service now: {:?}", now, w, verdicts); }
                            else if free == 0 && Some(&w) != waits.iter().min() { bad!("C06:wait-not-earliest", "poll@{} answered WaitUntil({}) but the earliest instant any transaction needs service is {:?}", now, w, waits.iter().min()); }
                            else if free > 0 && waits.iter().min().map_or(false, |d| w > *d) { bad!("C06:wait-not-earliest", "poll@{} answered WaitUntil({}) but a transaction needs service already at {:?}", now, w, waits.iter().min()); }
                            if w <= now { bad!("C06:wait-not-future", "poll@{} answered WaitUntil({})", now, w); }
                            for (k, r) in m.out.iter() { if r.pinned(now) == Verdict::Free { if let Some(e) = r.schedule_end() { if now > e { bad!("C05:never-ends", "poll@{} answered WaitUntil({}) although transaction {:#x}, whose retransmissions were cancelled, has outlived its whole schedule (end {})", now, w, k, e); } } } }
                            if let Some(t) = law { if now < t && w != t { bad!("C06:wait-not-stable", "poll@{} answered WaitUntil({}) although the previous poll answered WaitUntil({}) and nothing happened in between", now, w, t); }
                                                   if now >= t { bad!("C06:no-event-at-wakeup", "poll@{} answered WaitUntil({}) although the previous poll promised an event at {}", now, w, t); } }
                        }
                        last_wait = Some(w); last_wait_epoch = Some(epoch);
                    }
                    StunAgentPollRet::SendData(tx) => {
                        if let Some(t) = law { if now < t { bad!("C06:event-before-wakeup", "poll@{} produced a transmission although the previous poll answered WaitUntil({}) and nothing happened in between", now, t); } }
                        last_wait = None;
                        let id = m.out.iter().find(|(_, r)| r.bytes == tx.data() && r.to == tx.to).map(|(k, _)| *k);
                        trace.push(format!("poll@{} -> SendData({} bytes to {})", now, tx.data().len(), tx.to));
                        match id {
                            None => bad!("C18:retransmit", "poll@{} produced a transmission ({} bytes to {}) that is no outstanding request's unmodified bytes/destination", now, tx.data().len(), tx.to),
                            Some(id) => {
                                let cands: Vec<u128> = m.out.iter().filter(|(_, r)| r.bytes == tx.data() && r.to == tx.to && r.verdict(now) == Verdict::Send).map(|(k, _)| *k).collect();
                                if tx.from != local() || tx.transport != transport { bad!("C18:retransmit", "retransmission from {} over {:?}", tx.from, tx.transport); }
                                match cands.first() {
                                    None => bad!("C06:unexpected-transmit", "poll@{} retransmitted request {:#x} whose state calls for {:?}", now, id, m.out[&id].verdict(now)),
                                    Some(c) => { let r = m.out.get_mut(c).unwrap(); if r.last_send.is_some() { r.ti += 1; } r.last_send = Some(now); }
                                }
                            }
                        }
                    }
                    StunAgentPollRet::TransactionTimedOut(t) => {
                        if let Some(w0) = law { if now < w0 { bad!("C06:event-before-wakeup", "poll@{} reported a timeout although the previous poll answered WaitUntil({}) and nothing happened in between", now, w0); } }
                        last_wait = None;
                        let t: u128 = t.into();
                        trace.push(format!("poll@{} -> TimedOut({:#x})", now, t));
                        match m.out.get(&t).map(|r| r.pinned(now)) { Some(Verdict::TimedOut) | Some(Verdict::Free) => { m.out.remove(&t); } v => bad!("C06:timeout", "poll@{} reported TimedOut({:#x}) but that transaction's state calls for {:?}", now, t, v) }
                    }
                    StunAgentPollRet::TransactionCancelled(t) => {
                        if let Some(w0) = law { if now < w0 { bad!("C06:event-before-wakeup", "poll@{} reported a cancellation although the previous poll answered WaitUntil({}) and nothing happened in between", now, w0); } }
                        last_wait = None;
                        let t: u128 = t.into();
                        trace.push(format!("poll@{} -> Cancelled({:#x})", now, t));
                        match m.out.get(&t).map(|r| r.pinned(now)) { Some(Verdict::Cancelled) | Some(Verdict::Free) => { m.out.remove(&t); } v => bad!("C05:cancelled", "poll@{} reported Cancelled({:#x}) but that transaction's state calls for {:?}", now, t, v) }
                    }
                }
            }
            AOp::Handle { kind, t, from } => {
                let tid = TIDS[*t];
                let bytes = build_incoming(*kind, tid);
                let msg = Message::from_bytes(&bytes).unwrap();
                let is_resp = msg.is_response();
                let mtid: u128 = msg.transaction_id().into();
                let reply = agent.handle_stun(msg, addr(*from));
                let expect = if !is_resp { 2 } else if let Some(r) = m.out.get(&mtid) { if !r.had_creds || incoming_valid_under(*kind, &m.remote_key) { 1 } else { 0 } } else { 0 };
                let got = match reply { HandleStunReply::Drop => 0, HandleStunReply::StunResponse(_) => 1, HandleStunReply::IncomingStun(_) => 2 };
                trace.push(format!("handle(kind {}, {:#x}, from {}) -> {}", kind, mtid, addr(*from), ["Drop", "StunResponse", "IncomingStun"][got]));
                if got != expect {
                    let key = if expect == 1 || got == 1 { if m.out.get(&mtid).map(|r| r.had_creds).unwrap_or(false) { "C07:delivery" } else { "C05:delivery" } } else { "C15:incoming" };
                    bad!(key, "handle_stun(kind {}, id {:#x}): got {}, expected {} (outstanding {}, had credentials {:?}, remote key set {})", kind, mtid, ["Drop", "StunResponse", "IncomingStun"][got], ["Drop", "StunResponse", "IncomingStun"][expect], m.out.contains_key(&mtid), m.out.get(&mtid).map(|r| r.had_creds), m.remote_key.is_some());
                }
                if expect == 1 { m.out.remove(&mtid); m.peers.insert(addr(*from)); }
                if expect == 2 { m.peers.insert(addr(*from)); }
            }
            AOp::Cancel(t) | AOp::CancelRetrans(t) => {
                let tid = TIDS[*t];
                let full = matches!(op, AOp::Cancel(_));
                match agent.mut_request_transaction(tid.into()) {
                    Some(mut r) => { if full { r.cancel() } else { r.cancel_retransmissions() } if let Some(q) = m.out.get_mut(&tid) { q.send_c = true; if full { q.recv_c = true; } } }
                    None => {}
                }
                trace.push(format!("{}({:#x})", if full { "cancel" } else { "cancel_retransmissions" }, tid));
            }
            AOp::Configure { t, rto, n, last } => {
                let tid = TIDS[*t];
                if let Some(mut r) = agent.mut_request_transaction(tid.into()) {
                    r.configure_timeout(Duration::from_millis(*rto), *n, Duration::from_millis(*last));
                    if let Some(q) = m.out.get_mut(&tid) {
                        if transport == TransportType::Udp { q.sched = (0..*n).map(|i| rto * 1000 * (1u64 << i)).collect(); q.last_timeout = *last * 1000; }
                        else { q.sched = vec![]; q.last_timeout = last * 1000 + (0..*n).map(|i| rto * 1000 * (1u64 << i)).sum::<u64>(); }
                    }
                }
                trace.push(format!("configure({:#x}, {}, {}, {})", tid, rto, n, last));
            }
            AOp::SetRemote(k) => {
                if *k < 2 { agent.set_remote_credentials(creds_short(KEYS[*k as usize])); m.remote_key = Some(key_short(KEYS[*k as usize])); }
                trace.push(format!("set_remote({})", k));
            }
        }
        // observables after every call
        for &tid in TIDS.iter().chain([TIDS[0] ^ 0x5555].iter()) {
            let real = agent.request_transaction(tid.into()).map(|r| r.peer_address());
            let want = m.out.get(&tid).map(|r| r.to);
            if real != want { bad!(if real.is_some() != want.is_some() { "C05:outstanding" } else { "C18:peer-address" }, "request_transaction({:#x}) = {:?}, abstract agent says {:?}", tid, real, want); }
        }
        for i in 0..5 { if agent.is_validated_peer(addr(i)) != m.peers.contains(&addr(i)) { bad!("C15:validated", "is_validated_peer({}) = {}, abstract agent says {}", addr(i), agent.is_validated_peer(addr(i)), m.peers.contains(&addr(i))); } }
        if agent.is_validated_peer(local()) { bad!("C15:validated", "local address became validated"); }
    }
    let _ = (&m.transport, &m.local);
    trace
}


/// reduced alphabet for the exhaustive small-scope enumeration (two transactions, one unsealed and one sealed)
pub fn small_alphabet() -> Vec<AOp> {
    vec![
        AOp::Send { t: 0, class: 0, sealed: 0, to: 0 },
        AOp::Send { t: 1, class: 0, sealed: 1, to: 1 },
        AOp::PollAt(PollWhen::Exact),
        AOp::PollAt(PollWhen::Early),
        AOp::PollAt(PollWhen::Late(3)),
        AOp::Handle { kind: 3, t: 0, from: 0 },
        AOp::Handle { kind: 0, t: 1, from: 1 },
        AOp::Handle { kind: 2, t: 1, from: 1 },
        AOp::Cancel(0),
        AOp::CancelRetrans(1),
        AOp::Configure { t: 0, rto: 100, n: 1, last: 300 },
        AOp::Configure { t: 1, rto: 500, n: 3, last: 2000 },
        AOp::SetRemote(0),
    ]
}
/// the `index`-th history of length `depth` over the small alphabet (base-13 digits, least significant first)
pub fn small_history(depth: usize, mut index: u64) -> Vec<AOp> {
    let a = small_alphabet();
    let mut h = vec![];
    for _ in 0..depth { h.push(a[(index % a.len() as u64) as usize].clone()); index /= a.len() as u64; }
    h
}

fn agent_mode(name: &str, rule: &str, tier: &str, seed: u64, prefixes: &[&str], shift_check: bool) -> Report {
    let mut rep = Report::new(name, rule);
    let mut rng = Rng::new(seed);
    let n = crate::modes::n_cases(tier, 6000, 100000);
    let base = Instant::now();
    // exhaustive small scope: EVERY history of length 1..=depth over the 13-operation alphabet, UDP (and TCP in the thorough tier)
    let depth = if tier == "thorough" { 5 } else { 4 };
    let transports: &[TransportType] = if tier == "thorough" { &[TransportType::Udp, TransportType::Tcp] } else { &[TransportType::Udp] };
    let mut exhaustive = 0u64;
    for &transport in transports {
        for d in 1..=depth {
            let total = (small_alphabet().len() as u64).pow(d as u32);
            for idx in 0..total {
                let h = small_history(d, idx);
                let mut errs = vec![];
                let trace = run_history(&h, transport, base, &mut errs);
                exhaustive += 1;
                rep.case(trace.iter().any(|t| t.contains("SendData") || t.contains("StunResponse") || t.contains("TimedOut") || t.contains("Cancelled(")), format!("exh{:?}{}:{}", transport, d, idx).as_bytes());
                let wit = format!("{}:exh:{}:{}:{}", name, d, idx, if transport == TransportType::Tcp { "tcp" } else { "udp" });
                for (k, e) in errs {
                    if prefixes.iter().any(|p| k.starts_with(p)) { rep.violate(&k, format!("{} | history {:?}", e, h), wit.clone()); }
                    else if shift_check && k.starts_with("C06:") { rep.violate("C20:schedule-depends-on-other-calls", format!("{} | history {:?}", e, h), wit.clone()); }
                }
            }
        }
    }
    rep.notes.push(format!("exhaustive: all {} histories of length 1..={} over the 13-operation small alphabet ({:?})", exhaustive, depth, transports));
    for i in 0..n {
        let len = if i % 50 == 49 { 200 } else { rng.range(3, 14) as usize };
        let mut hr = Rng::new(seed ^ (i.wrapping_mul(0x9E37)));
        let h = gen_history(&mut hr, len);
        let transport = if rng.below(4) == 0 { TransportType::Tcp } else { TransportType::Udp };
        let mut errs = vec![];
        let trace = run_history(&h, transport, base, &mut errs);
        rep.case(trace.iter().any(|t| t.contains("SendData") || t.contains("StunResponse") || t.contains("TimedOut") || t.contains("Cancelled(")), format!("{:?}{:?}", transport, h).as_bytes());
        if i < 2 { rep.sample(format!("{:?} history: {:?}", transport, &h[..h.len().min(8)])); }
        let wit = format!("{}:history:{}:{}:{}:{}", name, seed, i, len, if transport == TransportType::Tcp { "tcp" } else { "udp" });
        for (k, e) in errs {
            if prefixes.iter().any(|p| k.starts_with(p)) { rep.violate(&k, format!("{} | history {:?}", e, &h[..h.len().min(40)]), wit.clone()); }
            else if shift_check && k.starts_with("C06:") {
                // the abstract agent gives every transaction a schedule that depends only on its own send / configure instants:
                // a timing mismatch means instants of other calls leaked into this transaction's schedule (last clause of C20)
                rep.violate("C20:schedule-depends-on-other-calls", format!("{} | history {:?}", e, &h[..h.len().min(40)]), wit.clone());
            }
        }
        if shift_check && i % 4 == 0 {
            // C20: same history, every instant shifted, in another agent instance on another thread alongside unrelated agents
            let shift = *rng.pick(&[1u64, 999, 3_600_000, 1_000_000_000]);
            let h2 = h.clone();
            let t2 = std::thread::spawn(move || {
                let _noise: Vec<StunAgent> = (0..3).map(|_| StunAgent::builder(TransportType::Udp, "10.9.9.9:9".parse().unwrap()).build()).collect();
                let mut e = vec![];
                run_history(&h2, transport, base + Duration::from_millis(shift), &mut e)
            }).join().unwrap();
            let mut e3 = vec![];
            let t3 = run_history(&h, transport, base, &mut e3);
            if t2 != trace || t3 != trace {
                let d = trace.iter().zip(t2.iter()).position(|(a, b)| a != b);
                rep.violate("C20:replay-differs", format!("replaying the history {} gives different replies at step {:?}: {:?} vs {:?}", if t3 != trace { "unchanged in another instance" } else { "shifted by a constant on another thread" }, d, d.map(|i| &trace[i]), d.map(|i| &t2[i])), wit.clone());
            }
        }
    }
    rep
}

const AGENT_RULE: &str = "EVERY call history of length <= 4 (quick) / <= 5 (thorough, UDP and TCP) over a 13-operation small alphabet, then random call histories of 3..14 operations (every 50th: 200) over {send request/indication/response sealed or not to 4 destinations, poll now / early / exactly at the wake-up / late / far, 9 kinds of incoming message (valid SHA-1/SHA-256 under the remote key, other key, unsigned, corrupted MAC, unknown id, request, indication, error+fingerprint) from 4 sources, cancel, cancel_retransmissions, configure_timeout(rto in {1,7,100,500,1000,60000} ms, 0..=8 retransmits, last in {0,1,300,8000,60000} ms), set/changed remote credentials} for 3 transaction ids, UDP and TCP; after every call the replies and the observables request_transaction / peer_address / is_validated_peer are compared with an abstract agent written from the statement; non-trivial = history with at least one retransmission, delivery, timeout or cancellation.";

pub fn c05(tier: &str, seed: u64) -> Report { agent_mode("c05", AGENT_RULE, tier, seed, &["C05"], false) }
pub fn c06(tier: &str, seed: u64) -> Report {
    let mut rep = agent_mode("c06", AGENT_RULE, tier, seed, &["C06"], false);
    default_schedule(&mut rep);
    configure_grid(&mut rep, tier);
    rep
}
pub fn c07(tier: &str, seed: u64) -> Report { agent_mode("c07", AGENT_RULE, tier, seed, &["C07"], false) }
pub fn c15(tier: &str, seed: u64) -> Report { agent_mode("c15", AGENT_RULE, tier, seed, &["C15"], false) }
pub fn c18(tier: &str, seed: u64) -> Report { agent_mode("c18", AGENT_RULE, tier, seed, &["C18"], false) }
pub fn c20(tier: &str, seed: u64) -> Report { agent_mode("c20", AGENT_RULE, tier, seed, &["C20"], true) }

/// the default schedule: 7 transmissions at 0, 0.5, 1.5, 3.5, 7.5, 15.5, 31.5 s and a timeout at 39.5 s; TCP once, timeout at 39.5 s
fn default_schedule(rep: &mut Report) {
    for transport in [TransportType::Udp, TransportType::Tcp] {
        let base = Instant::now();
        let mut agent = StunAgent::builder(transport, local()).build();
        let (b, _) = build_request(1, 0, 0);
        agent.send(b, addr(0), base).unwrap();
        let mut sends = vec![0u64];
        let mut now = 0u64;
        let mut end = None;
        for _ in 0..40 {
            match agent.poll(base + Duration::from_millis(now)) {
                StunAgentPollRet::WaitUntil(w) => { now = w.duration_since(base).as_millis() as u64; }
                StunAgentPollRet::SendData(_) => sends.push(now),
                StunAgentPollRet::TransactionTimedOut(_) => { end = Some(now); break; }
                StunAgentPollRet::TransactionCancelled(_) => break,
            }
        }
        rep.evaluations += 1;
        let want: (Vec<u64>, Option<u64>) = if transport == TransportType::Udp { (vec![0, 500, 1500, 3500, 7500, 15500, 31500], Some(39500)) } else { (vec![0], Some(39500)) };
        if (sends.clone(), end) != want { rep.violate("C06:default-schedule", format!("{:?} default schedule: transmissions at {:?} ms, timeout at {:?}; RFC 8489 says {:?} / {:?}", transport, sends, end, want.0, want.1), format!("c06:default:{:?}", transport)); }
    }
}

/// configure_timeout over the grid of the statement, driven by exactly-on-time polls
fn configure_grid(rep: &mut Report, tier: &str) {
    let rtos: &[u64] = if tier == "thorough" { &[1, 2, 7, 100, 499, 500, 1000, 59999, 60000] } else { &[1, 500, 60000] };
    let lasts: &[u64] = if tier == "thorough" { &[0, 1, 300, 8000, 60000] } else { &[0, 8000, 60000] };
    for transport in [TransportType::Udp, TransportType::Tcp] {
        for &rto in rtos { for n in 0..=8u32 { for &last in lasts {
            let base = Instant::now();
            let mut agent = StunAgent::builder(transport, local()).build();
            let (b, _) = build_request(1, 0, 0);
            agent.send(b, addr(0), base).unwrap();
            agent.mut_request_transaction(1.into()).unwrap().configure_timeout(Duration::from_millis(rto), n, Duration::from_millis(last));
            let mut sends = vec![0u64];
            let mut now = 0u64;
            let mut end = None;
            let mut waits: Vec<u64> = vec![];
            for _ in 0..40 {
                match agent.poll(base + Duration::from_millis(now)) {
                    StunAgentPollRet::WaitUntil(w) => { let w = w.duration_since(base).as_millis() as u64; waits.push(w); if w <= now { break; } now = w; }
                    StunAgentPollRet::SendData(_) => sends.push(now),
                    StunAgentPollRet::TransactionTimedOut(_) => { end = Some(now); break; }
                    StunAgentPollRet::TransactionCancelled(_) => break,
                }
            }
            let mut want = vec![0u64];
            let mut t = 0u64;
            let wend;
            if transport == TransportType::Udp { for k in 0..n { t += rto << k; want.push(t); } wend = t + last; } else { wend = last + (0..n).map(|k| rto << k).sum::<u64>(); }
            rep.evaluations += 1;
            rep.distinct.insert(fnv(format!("{:?}{}{}{}", transport, rto, n, last).as_bytes()));
            // every WaitUntil answered on the way is exactly the next service instant (the next transmission or the timeout)
            let mut expect_waits: Vec<u64> = want[1..].to_vec();
            expect_waits.push(wend);
            expect_waits.dedup();
            let mut w2 = waits.clone();
            w2.dedup();
            let expect_nonzero: Vec<u64> = expect_waits.iter().cloned().filter(|&x| x > 0).collect();
            let w2nz: Vec<u64> = w2.iter().cloned().filter(|&x| x > 0).collect();
            if w2nz != { let mut e = expect_nonzero.clone(); e.dedup(); e } { rep.violate("C06:wait-not-earliest", format!("{:?} rto {} ms x {} retransmits, last {} ms: poll answered WaitUntil at {:?} ms, the service instants are {:?}", transport, rto, n, last, w2, expect_waits), format!("c06:configure:{:?}:{}:{}:{}", transport, rto, n, last)); }
            if sends != want || end != Some(wend) { rep.violate("C06:configured-schedule", format!("{:?} rto {} ms x {} retransmits, last {} ms: transmissions at {:?}, end {:?}; want {:?}, {}", transport, rto, n, last, sends, end, want, wend), format!("c06:configure:{:?}:{}:{}:{}", transport, rto, n, last)); }
        } } }
    }
}
