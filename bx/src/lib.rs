pub mod util;
pub mod refcrypto;
pub mod refmsg;
pub mod msgcheck;
pub mod modes;
pub mod modes2;
pub mod agentmodes;
