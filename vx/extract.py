#!/usr/bin/env python3
"""VX extractor: builds one Verus file per unit from /repo's *working tree*.

A unit template (vx/units/<unit>.vrs) is Verus source text with directive lines `//@ ...`:

  //@ include shims/<file>                      paste a trusted shim file
  //@ item <file> :: <path>                     paste an item verbatim (rules R1..R9 applied)
  //@ fn <file> :: <path>                       paste a function and weave a contract into it;
      followed by sub-directives, each followed by raw content lines, until `//@ end`:
        //@ attr                                 attribute lines put in front of the fn
        //@ ret <name>                           name the return value:  -> (name: T)
        //@ spec                                 requires/ensures/decreases text (before the body `{`)
        //@ at fn-head                           text inserted right after the body `{`
        //@ at loop#k-spec                       invariant/decreases of the k-th loop of the fn (1-based, textual order)
        //@ at loop#k-head | loop#k-tail | after-loop#k
        //@ at before:`<text>`[#n] | after:`<text>`[#n]   text anchors (whitespace-insensitive; statement end for after:)
        //@ closure#k                            replacement header of the k-th closure:  |e: T| -> (r: T) requires ...
        //@ rewrite `<old>` => `<new>`           unit-specific textual rewrite (rule R10, counted and reported)
  //@ novacuity                                 (inside fn) do not add `ensures false` for the vacuity run
  //@ label <Cxx.clause> ...                    free-form, maps following clause to a property (documentation)

Everything not matched by a directive is copied as is (spec functions, lemmas, SpecImpl impls).
The extractor never edits /repo.  Lost anchors raise ExtractError (driver => exit 2, undecided).
"""
import os
import re
import sys
import json

sys.path.insert(0, os.path.dirname(os.path.abspath(__file__)))
import r11
from rustscan import Source, ScanError, blank_noncode, match_close, match_open, skip_ws, norm, OPEN, CLOSE

REPO = os.environ.get('VERIF_REPO', '/repo')
HERE = os.path.dirname(os.path.abspath(__file__))


class ExtractError(Exception):
    pass


KEEP_DERIVES = ('Copy', 'Clone', 'PartialEq', 'Eq')
EXTRA_KEEP = []   # per-item additions, set by `//@ item ... +derive(Debug)`
TRACE_MACROS = ('trace', 'debug', 'info', 'warn', 'error')


class Rules:
    """Counts how often each extraction rule fired (reported in evidence)."""

    def __init__(self):
        self.fired = {}
        self.dropped = []

    def hit(self, rule, what=None):
        self.fired[rule] = self.fired.get(rule, 0) + 1
        if what:
            self.dropped.append('%s: %s' % (rule, what))


def _flex(anchor):
    """regex matching `anchor` with arbitrary whitespace between any two characters"""
    a = norm(anchor)
    return re.compile(r'\s*'.join(re.escape(ch) for ch in a))


def strip_attrs_and_docs(text, rules, keep_pub=True):
    """R1 (instrument attribute) + R2 (derive filtering, doc comments, misc attributes)."""
    code = blank_noncode(text)
    out = []
    i = 0
    n = len(text)
    while i < n:
        if code.startswith('#[', i):
            j = match_close(code, i + 1)
            attr = text[i:j + 1]
            inner = norm(attr[2:-1])
            if inner.startswith('tracing::instrument') or inner.startswith('instrument'):
                rules.hit('R1', 'tracing::instrument attribute')
                i = j + 1
                continue
            if inner.startswith('derive('):
                names = [x for x in inner[len('derive('):-1].split(',') if x]
                kept = [x for x in names if x in KEEP_DERIVES or x in EXTRA_KEEP]
                dropped = [x for x in names if x not in KEEP_DERIVES and x not in EXTRA_KEEP]
                if dropped:
                    rules.hit('R2', 'derive(%s)' % ','.join(dropped))
                if kept:
                    out.append('#[derive(%s)]' % ', '.join(kept))
                i = j + 1
                continue
            if inner.startswith(('error(', 'cfg_attr(', 'doc(', 'repr(', 'doc=', 'allow(', 'inline', 'must_use')):
                rules.hit('R2', 'attribute ' + inner.split('(')[0])
                i = j + 1
                continue
            out.append(attr)
            i = j + 1
            continue
        if text.startswith('///', i) or text.startswith('//!', i):
            # doc comment (only when really a comment start, i.e. blanked in code)
            if code[i] == ' ':
                j = text.find('\n', i)
                if j < 0:
                    j = n
                i = j
                continue
        out.append(text[i])
        i += 1
    return ''.join(out)


def drop_tracing_macros(text, rules):
    """R1: remove statement-position trace!/debug!/info!/warn!/error! invocations."""
    while True:
        code = blank_noncode(text)
        m = None
        for mm in re.finditer(r'\b(?:tracing::)?(%s)\s*!\s*\(' % '|'.join(TRACE_MACROS), code):
            m = mm
            break
        if not m:
            return text
        start = m.start()
        # statement position?
        k = start - 1
        while k >= 0 and code[k].isspace():
            k -= 1
        if k >= 1 and code[k - 1:k + 1] == '=>':
            # match-arm expression position: the arm evaluates to ()
            close = match_close(code, m.end() - 1)
            rules.hit('R1', m.group(1) + '! (match arm)')
            text = text[:start] + '()' + text[close + 1:]
            continue
        if k >= 0 and code[k] not in '{};':
            raise ExtractError('tracing macro not in statement position: %r' % text[start:start + 60])
        close = match_close(code, m.end() - 1)
        end = close + 1
        e2 = skip_ws(code, end)
        if e2 < len(code) and code[e2] == ';':
            end = e2 + 1
        rules.hit('R1', m.group(1) + '!')
        text = text[:start] + text[end:]


def _cast_operand_start(code, as_pos):
    """Return start index of the postfix/primary expression that is the left operand of `as` at as_pos."""
    j = as_pos - 1
    while j >= 0 and code[j].isspace():
        j -= 1
    end = j + 1
    while j >= 0:
        c = code[j]
        if c in ')]':
            j = match_open(code, j) - 1
            # a call/index: continue if preceded by ident char, '!' no
            continue
        if c.isalnum() or c == '_':
            while j >= 0 and (code[j].isalnum() or code[j] == '_'):
                j -= 1
            # is this identifier the keyword `as` (chained cast) or another keyword?
            w = code[j + 1:end]
            continue_ok = True
            if j >= 1 and code[j] == '.' or (j >= 1 and code[j - 1:j + 1] == '::'):
                pass
            continue
        if c == '.':
            j -= 1
            # a method chain may continue on the previous line: `)\n    .as_millis() as u64`
            while j >= 0 and code[j].isspace():
                j -= 1
            continue
        if c == ':' and j >= 1 and code[j - 1] == ':':
            j -= 2
            continue
        if c == '?':
            j -= 1
            continue
        if c.isspace():
            # whitespace inside a chain is only skipped when the chain continues with `.` on the right of it
            k = j
            while k >= 0 and code[k].isspace():
                k -= 1
            nxt = j + 1
            while nxt < len(code) and code[nxt].isspace():
                nxt += 1
            if nxt < len(code) and code[nxt] == '.' and k >= 0 and code[k] in ')]?':
                j = k
                continue
        break
    start = j + 1
    # handle `a as usize as u16`: code between start and as_pos may begin with keyword pieces; fine.
    # skip leading whitespace
    while start < end and code[start].isspace():
        start += 1
    return start


def add_truncate(text, rules):
    """R3: `#[verifier::truncate]` on casts to fixed-width unsigned types (Rust semantics = truncation)."""
    pos = 0
    while True:
        code = blank_noncode(text)
        m = re.search(r'\bas\s+(u8|u16|u32|u64)\b', code[pos:])
        if not m:
            return text
        as_pos = pos + m.start()
        end = pos + m.end()
        start = _cast_operand_start(code, as_pos)
        operand = text[start:as_pos].strip()
        if not operand:
            raise ExtractError('R3: cannot find cast operand near %r' % text[max(0, as_pos - 40):end])
        # unary prefix operators directly in front would change the grouping; refuse
        k = start - 1
        while k >= 0 and code[k].isspace():
            k -= 1
        if k >= 0 and code[k] in '-!*&' and not (code[k] in '*&-' and _binary_context(code, k)):
            raise ExtractError('R3: unary operator in front of cast operand near %r' % text[max(0, start - 20):end])
        repl = '#[verifier::truncate] (' + text[start:end] + ')'
        rules.hit('R3')
        text = text[:start] + repl + text[end:]
        pos = start + len(repl)


def _binary_context(code, k):
    """code[k] is one of * & - ; decide whether it is a binary operator (has a left operand)."""
    j = k - 1
    while j >= 0 and code[j].isspace():
        j -= 1
    return j >= 0 and (code[j].isalnum() or code[j] in '_)]')


def rewrite_misc(text, rules):
    code = blank_noncode(text)
    # R4: closure parameter `|_|`
    new = re.sub(r'\|\s*_\s*\|', '|_e|', text)
    if new != text:
        rules.hit('R4')
        text = new
    # R6: unreachable!() -> vstd::pervasive::unreached()
    # (a trailing `unreachable!();` is the function's tail expression of type `!`; `unreached()` is generic in its
    # return type, so the `;` is dropped when the statement is the last one of its block)
    text = re.sub(r'\bunreachable!\s*\(\s*\)\s*;(\s*\})', r'unreachable!()\1', text)
    new, k = re.subn(r'\bunreachable!\s*\(\s*\)', 'vstd::pervasive::unreached()', text)
    for _ in range(k):
        rules.hit('R6', 'unreachable!() -> unreached()')
    text = new
    # R6: `panic!(..)` (a documented panic) -> `vstd::pervasive::unreached::<()>()`: the obligation that the call is never
    # reached under the function's precondition (the documented "# Panics" condition becomes a `requires`)
    while True:
        code = blank_noncode(text)
        m = re.search(r'\bpanic\s*!\s*\(', code)
        if not m:
            break
        close = match_close(code, m.end() - 1)
        rules.hit('R6', 'panic!(..) -> unreached()')
        text = text[:m.start()] + 'vstd::pervasive::unreached::<()>()' + text[close + 1:]
    # R6: debug_assert!(..) is dropped (listed): it is compiled out of release builds and its
    # argument expressions often use constructs outside the verified subset
    while True:
        code = blank_noncode(text)
        m = re.search(r'\bdebug_assert(_eq|_ne)?\s*!\s*\(', code)
        if not m:
            break
        close = match_close(code, m.end() - 1)
        end = close + 1
        e2 = skip_ws(code, end)
        if e2 < len(code) and code[e2] == ';':
            end = e2 + 1
        rules.hit('R6', 'debug_assert dropped: ' + norm(text[m.start():close + 1])[:80])
        text = text[:m.start()] + text[end:]
    # R5: BigEndian::write_uN(&mut X[a..b], v) -> be_write_uN_at(&mut X, a, b, v)   (X a Vec<u8>; default)
    #                                          -> be_write_uN_at_slice(X, a, b, v)   (X a `&mut [u8]`; fn directive `//@ r5 slice`)
    while True:
        code = blank_noncode(text)
        m = re.search(r'\bBigEndian::write_(u16|u32|u64|u128)\s*\(\s*&mut\s+([A-Za-z_][A-Za-z0-9_\.]*)\s*\[', code)
        if not m:
            break
        br = m.end() - 1
        brc = match_close(code, br)
        a, b = _split_range(text[br + 1:brc], m.group(2))
        if R5_SLICE[0]:
            repl = 'be_write_%s_at_slice(%s, %s, %s' % (m.group(1), m.group(2), a, b)
        else:
            repl = 'be_write_%s_at(&mut %s, %s, %s' % (m.group(1), m.group(2), a, b)
        rules.hit('R5')
        text = text[:m.start()] + repl + text[brc + 1:]
    # R5b/R5c: X[a..b].copy_from_slice(Y) -> slice_copy_at(X, a, b, Y) ; X[a..b].fill(v) -> slice_fill_at(X, a, b, v)
    while True:
        code = blank_noncode(text)
        m = re.search(r'\b([A-Za-z_][A-Za-z0-9_]*)\s*\[', code)
        found = None
        for m in re.finditer(r'\b([A-Za-z_][A-Za-z0-9_]*)\s*\[', code):
            br = m.end() - 1
            brc = match_close(code, br)
            mm = re.match(r'\s*\.\s*(copy_from_slice|fill)\s*\(', code[brc + 1:brc + 40])
            if mm and '..' in code[br + 1:brc]:
                found = (m, br, brc, mm)
                break
        if not found:
            break
        m, br, brc, mm = found
        a, b = _split_range(text[br + 1:brc], m.group(1))
        fn = 'slice_copy_at' if mm.group(1) == 'copy_from_slice' else 'slice_fill_at'
        call_open = brc + 1 + mm.end() - 1
        repl = '%s(%s, %s, %s, ' % (fn, m.group(1), a, b)
        rules.hit('R5', '%s[..].%s' % (m.group(1), mm.group(1)))
        text = text[:m.start()] + repl + text[call_open + 1:]
    return text


R5_SLICE = [False]


def _split_range(rng, base):
    """'a..b' | 'a..' | '..b' -> (a, b) with defaults 0 / base.len()"""
    code = blank_noncode(rng)
    depth = 0
    pos = None
    for k in range(len(code) - 1):
        c = code[k]
        if c in '([{':
            depth += 1
        elif c in ')]}':
            depth -= 1
        elif c == '.' and code[k + 1] == '.' and depth == 0:
            pos = k
            break
    if pos is None:
        raise ExtractError('R5: unsupported range %r' % rng)
    a = rng[:pos].strip() or '0'
    b = rng[pos + 2:].strip()
    if b.startswith('='):
        raise ExtractError('R5: inclusive range %r' % rng)
    if not b:
        b = '%s.len()' % base
    return a, b


def make_fields_pub(text, rules):
    """R9: private fields of an extracted struct become pub."""
    code = blank_noncode(text)
    m = re.search(r'\bstruct\b', code)
    if not m:
        return text
    # find body
    j = m.end()
    while j < len(code) and code[j] not in '{(;':
        if code[j] == '<':
            pass
        j += 1
    if j >= len(code) or code[j] == ';':
        return text
    close = match_close(code, j)
    body = text[j + 1:close]
    bcode = code[j + 1:close]
    # split on commas at depth 0
    parts = []
    depth = 0
    last = 0
    for k, c in enumerate(bcode):
        if c in '([{<':
            depth += 1
        elif c in ')]}>':
            depth -= 1
        elif c == ',' and depth == 0:
            parts.append((last, k))
            last = k + 1
    parts.append((last, len(bcode)))
    out = []
    for (a, b) in parts:
        seg = body[a:b]
        scode = bcode[a:b]
        if not scode.strip():
            out.append(seg)
            continue
        # position of first code char that is not an attribute
        p = 0
        while True:
            p = skip_ws(scode, p)
            if scode.startswith('#[', p):
                p = match_close(scode, p + 1) + 1
            else:
                break
        if not scode[p:].startswith('pub'):
            seg = seg[:p] + 'pub ' + seg[p:]
            rules.hit('R9')
        elif re.match(r'pub\s*\(', scode[p:]):
            q = match_close(scode, scode.index('(', p))
            seg = seg[:p] + 'pub' + seg[q + 1:]
            rules.hit('R9')
        out.append(seg)
    return text[:j + 1] + ','.join(out) + text[close:]


def hoist_trait_consts(text, rules, consts_out):
    """R8: `impl AttributeStaticType for X { const TYPE: AttributeType = AttributeType(0xNNNN); }`"""
    m = re.search(r'impl\s+AttributeStaticType\s+for\s+([A-Za-z0-9_]+)\s*\{\s*const\s+TYPE\s*:\s*AttributeType\s*=\s*(AttributeType(?:::new)?\(\s*0x[0-9a-fA-F]+\s*\))\s*;\s*\}', text)
    if not m:
        return text
    name = m.group(1).upper() + '_TYPE'
    rules.hit('R8')
    val = m.group(2).replace('AttributeType::new', 'AttributeType')
    return 'pub const %s: AttributeType = %s;\n' % (name, val) + text[:m.start(2)] + name + text[m.end(2):]


def transform(text, rules, kind=None):
    text = strip_attrs_and_docs(text, rules)
    text = drop_tracing_macros(text, rules)
    text = rewrite_misc(text, rules)
    text = add_truncate(text, rules)
    # R9: restricted visibility -> pub (visibility has no run-time meaning; Verus treats
    # non-pub types as opaque in pub specs)
    new, k = re.subn(r'\bpub\s*\(\s*(?:crate|super)\s*\)', 'pub', text)
    for _ in range(k):
        rules.hit('R9')
    text = new
    if kind in ('struct', 'enum'):
        # R9: module-private type -> pub
        code = blank_noncode(text)
        m = re.search(r'\b(struct|enum)\b', code)
        if m and not re.search(r'\bpub\b', code[:m.start()]):
            text = text[:m.start()] + 'pub ' + text[m.start():]
            rules.hit('R9')
    if kind == 'struct':
        text = make_fields_pub(text, rules)
    if kind == 'impl':
        text = hoist_trait_consts(text, rules, None)
    return text


# ---------------------------------------------------------------------------------------------
# weaving
# ---------------------------------------------------------------------------------------------

def find_loops(code, body_open, body_close):
    """positions (kw_pos, block_open) of while/for/loop in textual order inside the body"""
    loops = []
    for m in re.finditer(r'\b(while|for|loop)\b', code[body_open:body_close]):
        kw = body_open + m.start()
        # `for<'a>` in types: skip when followed by '<'
        nxt = skip_ws(code, kw + len(m.group(1)))
        if m.group(1) == 'for' and code[nxt] == '<':
            continue
        # find block open: first '{' at depth 0 after keyword
        j = nxt
        while j < body_close:
            c = code[j]
            if c in '([':
                j = match_close(code, j) + 1
                continue
            if c == '{':
                break
            j += 1
        loops.append((kw, j))
    return loops


def find_closures(code, body_open, body_close):
    """positions (start, end) of closure parameter lists `|...|` (only those opening a closure)."""
    res = []
    i = body_open
    while i < body_close:
        c = code[i]
        if c == '|':
            # closure start if previous significant char is one of ( , = { ; or keyword move/return
            k = i - 1
            while k >= 0 and code[k].isspace():
                k -= 1
            prev = code[k]
            is_start = prev in '(,={;' or code[max(0, k - 3):k + 1] == 'move'
            if code[i + 1] == '|' and is_start:
                res.append((i, i + 2))
                i += 2
                continue
            if is_start:
                j = i + 1
                depth = 0
                while j < body_close:
                    if code[j] in '([<':
                        depth += 1
                    elif code[j] in ')]>':
                        depth -= 1
                    elif code[j] == '|' and depth <= 0:
                        break
                    j += 1
                res.append((i, j + 1))
                i = j + 1
                continue
        i += 1
    return res


def stmt_end(code, pos, limit):
    """end (exclusive) of the statement in which pos lies: next ';' at the nesting depth of pos,
    or the '}' closing a block that starts at this depth if the statement is block-like."""
    j = pos
    while j < limit:
        c = code[j]
        if c in OPEN:
            j = match_close(code, j) + 1
            # block-like statement end: `}` followed by something that is not `;`, `.`, `?`, else
            if c == '{':
                k = skip_ws(code, j)
                if k < limit and code[k] in ';':
                    return k + 1
                if k < limit and (code[k] in '.?' or code.startswith('else', k)):
                    continue
                return j
            continue
        if c == ';':
            return j + 1
        if c in ')]':
            j += 1      # the anchor text ended inside a parenthesised group: keep going outwards
            continue
        if c == '}':
            return j
        j += 1
    return limit


class FnWeave:
    def __init__(self):
        self.attr = ''
        self.ret = None
        self.spec = ''
        self.at = []        # (where, text)
        self.closures = {}  # k -> header
        self.rewrites = []  # (old, new)
        self.novacuity = False
        self.opaque = False
        self.r5slice = False
        self.r8b = False
        self.iters = {}
        self.r11 = None     # None | {'vec': type or None}
        self.r12 = None     # concrete return type replacing an `impl Trait` return type
        self.r13 = False    # `for` loops over std iterators -> loop { match it.next() {..} }
        self.r14 = []       # names of `&str` values whose `.len()` is replaced by the definition `.as_bytes().len()`


def weave_fn(text, w, rules, vacuity=False, name='?'):
    """text: transformed function text (attributes + signature + body)."""
    for (old, new) in w.rewrites:
        rx = _flex(old)
        if not rx.search(text):
            raise ExtractError('lost anchor: rewrite source %r not found in fn %s' % (old, name))
        text, k = rx.subn(lambda m: new, text)
        for _ in range(k):
            rules.hit('R10', 'fn %s: %s => %s' % (name, norm(old)[:60], norm(new)[:60]))
    code = blank_noncode(text)
    m = re.search(r'\bfn\b', code)
    if not m:
        raise ExtractError('not a function: %r' % text[:80])
    # body open: first '{' at depth 0 after fn
    j = m.end()
    while j < len(code):
        c = code[j]
        if c in '([':
            j = match_close(code, j) + 1
            continue
        if c == '{' or c == ';':
            break
        j += 1
    if j >= len(code) or code[j] == ';':
        raise ExtractError('function %s has no body' % name)
    body_open = j
    body_close = match_close(code, body_open)
    if w.opaque:
        text = text[:body_open] + '{ unimplemented!() }' + text[body_close + 1:]
        code = blank_noncode(text)
        body_close = match_close(code, body_open)
    inserts = []  # (pos, text, order)

    # closures first need positions; handle all as inserts/replacements on original offsets
    repl = []  # (start, end, newtext)
    if w.closures:
        cl = find_closures(code, body_open, body_close)
        for k, hdr in w.closures.items():
            if k > len(cl):
                raise ExtractError('lost anchor: closure#%d in fn %s (found %d)' % (k, name, len(cl)))
            a, b = cl[k - 1]
            repl.append((a, b, hdr.strip()))
            # a contracted closure needs a block body: wrap an expression body in braces
            q = skip_ws(code, b)
            if code[q] != '{':
                e = q
                while e < body_close:
                    if code[e] in OPEN:
                        e = match_close(code, e) + 1
                        continue
                    if code[e] in ',)':
                        break
                    e += 1
                repl.append((q, q, '{ '))
                repl.append((e, e, ' }'))
    loops = None
    for k, nm in w.iters.items():
        if loops is None:
            loops = find_loops(code, body_open, body_close)
        if k > len(loops):
            raise ExtractError('lost anchor: loop#%d in fn %s (found %d loops)' % (k, name, len(loops)))
        kw, bo = loops[k - 1]
        im = re.search(r'\bin\b', code[kw:bo])
        if not code.startswith('for', kw) or not im:
            raise ExtractError('lost anchor: loop#%d in fn %s is not a for loop' % (k, name))
        inserts.append((kw + im.end(), ' %s:' % nm))
    for where, t in w.at:
        t = t.rstrip('\n') + '\n'
        if where == 'fn-head':
            inserts.append((body_open + 1, '\n' + t))
            continue
        mm = re.match(r'(loop#(\d+)-(spec|head|tail)|after-loop#(\d+))$', where)
        if mm:
            if loops is None:
                loops = find_loops(code, body_open, body_close)
            k = int(mm.group(2) or mm.group(4))
            if k > len(loops):
                raise ExtractError('lost anchor: loop#%d in fn %s (found %d loops)' % (k, name, len(loops)))
            kw, bo = loops[k - 1]
            bc = match_close(code, bo)
            if mm.group(3) == 'spec':
                inserts.append((bo, '\n' + t))
            elif mm.group(3) == 'head':
                inserts.append((bo + 1, '\n' + t))
            elif mm.group(3) == 'tail':
                inserts.append((bc, '\n' + t))
            else:
                inserts.append((bc + 1, '\n' + t))
            continue
        mm = re.match(r'(before|after):`(.*)`(?:#(\d+))?$', where, re.S)
        if mm:
            rx = _flex(mm.group(2))
            occ = int(mm.group(3) or 1)
            ms = list(rx.finditer(text, body_open, body_close))
            # only matches that are in code (not inside comments)
            ms = [x for x in ms if code[x.start()] != ' ' or text[x.start()] == ' ']
            if len(ms) < occ:
                raise ExtractError('lost anchor: text `%s`#%d in fn %s' % (mm.group(2), occ, name))
            x = ms[occ - 1]
            if mm.group(1) == 'before':
                inserts.append((x.start(), t))
            else:
                e = x.end()
                last = text[e - 1]
                if last in ';{}':
                    pos = e
                else:
                    pos = stmt_end(code, e, body_close)
                inserts.append((pos, '\n' + t))
            continue
        raise ExtractError('unknown weave position %r in fn %s' % (where, name))
    # signature: ret naming and spec
    sig_a = m.start()
    sig = text[sig_a:body_open]
    sigcode = code[sig_a:body_open]
    spec = w.spec
    if vacuity and not w.novacuity:
        em = re.search(r'\bensures\b', blank_noncode(spec))
        if em:
            spec = spec[:em.end()] + ' false,' + spec[em.end():]
        else:
            # ensures must come before decreases
            sc = blank_noncode(spec)
            dm = re.search(r'\bdecreases\b', sc)
            if dm:
                spec = spec[:dm.start()] + ' ensures false,\n' + spec[dm.start():]
            else:
                spec = spec.rstrip() + '\n        ensures false,\n'
    if w.ret:
        # find '->' at depth 0 after the parameter list
        p = sigcode.index('(')
        pc = match_close(sigcode, p)
        arrow = sigcode.find('->', pc)
        wh = re.search(r'\bwhere\b', sigcode[pc:])
        if arrow < 0:
            new_sig = sig.rstrip() + ' -> (%s: ())' % w.ret if False else sig
            if w.ret:
                raise ExtractError('fn %s has no return type to name' % name)
        else:
            ty_end = pc + wh.start() if wh else len(sig)
            ty = sig[arrow + 2:ty_end].strip()
            sig = sig[:arrow] + '-> (%s: %s)' % (w.ret, ty) + ('\n    ' + sig[ty_end:] if wh else ' ')
    new_sig = sig.rstrip() + '\n' + spec.rstrip('\n') + '\n' if spec.strip() else sig
    # assemble: apply inserts and replacements from the end
    edits = [(pos, pos, t) for (pos, t) in inserts] + repl
    edits.sort(key=lambda e: (e[0], e[1]), reverse=True)
    body = text
    for (a, b, t) in edits:
        if a < body_open:
            raise ExtractError('edit before body in fn %s' % name)
        body = body[:a] + t + body[b:]
    result = text[:sig_a] + new_sig + body[body_open:]
    if w.attr.strip():
        result = w.attr.rstrip('\n') + '\n' + result
    return result


# ---------------------------------------------------------------------------------------------
# template processing
# ---------------------------------------------------------------------------------------------

_sources = {}


def get_source(rel):
    p = os.path.join(REPO, rel)
    if p not in _sources:
        if not os.path.exists(p):
            raise ExtractError('lost anchor: file %s' % rel)
        try:
            _sources[p] = Source(p)
        except ScanError as e:
            raise ExtractError('scan error in %s: %s' % (rel, e))
    return _sources[p]


def split_path(spec):
    parts = [x.strip() for x in spec.split(' :: ')]
    return parts[0], parts[1:]


def build_unit(unit_path, vacuity=False, degrade=None):
    """Returns (generated_text, info) where info has functions under contract, rule counts,
    line map (generated line -> origin).
    degrade: {fn path: reason} - functions whose body cannot be brought under contract on this tree (lost anchor, hint that
    no longer compiles, unsupported construct): they are emitted as `#[verifier::external_body]` with their contract, i.e. the
    contract is ASSUMED for this run; every property that depends on such a function is UNDECIDED (driver/main.py), the others
    keep their verdict.  A lost anchor found while weaving degrades the function on the fly."""
    rules = Rules()
    degrade = dict(degrade or {})
    degraded = []
    lines = open(unit_path).read().split('\n')
    out = []
    fns = []      # contracted functions: dict(name, file, path, gen_line_start, gen_line_end)
    items = []
    aliases = {}
    i = 0
    n = len(lines)

    def emit(text, origin=None):
        start = sum(x.count('\n') for x in out) + 1
        out.append(text if text.endswith('\n') else text + '\n')
        end = sum(x.count('\n') for x in out)
        return start, end

    while i < n:
        ln = lines[i]
        s = ln.strip()
        if not s.startswith('//@'):
            emit(ln)
            i += 1
            continue
        d = s[3:].strip()
        if d.startswith('alias '):
            a, f = d[6:].split('=')
            aliases[a.strip()] = f.strip()
            i += 1
            continue
        if d.startswith('include-unit '):
            # splice another template (directives are processed as if written here)
            sub = open(os.path.join(HERE, d[len('include-unit '):].strip())).read().split('\n')
            lines[i:i + 1] = sub
            n = len(lines)
            continue
        if d.startswith('include '):
            p = os.path.join(HERE, d[8:].strip())
            emit('// ---- include %s\n' % d[8:].strip() + open(p).read())
            i += 1
            continue
        if d.startswith('item '):
            del EXTRA_KEEP[:]
            mk = re.search(r'\s\+derive\(([A-Za-z, ]+)\)\s*$', d)
            if mk:
                EXTRA_KEEP.extend(x.strip() for x in mk.group(1).split(','))
                d = d[:mk.start()]
            f, path = split_path(d[5:])
            f = aliases.get(f, f)
            src = get_source(f)
            try:
                it = src.find(path)
            except ScanError as e:
                raise ExtractError(str(e))
            txt = transform(src.text[it.start:it.end], rules, it.kind)
            del EXTRA_KEEP[:]
            a, b = emit('// ---- extracted item: %s :: %s\n' % (f, ' :: '.join(path)) + txt)
            items.append({'file': f, 'path': ' :: '.join(path), 'gen_lines': [a, b]})
            i += 1
            continue
        if d.startswith('fn '):
            f, path = split_path(d[3:])
            f = aliases.get(f, f)
            w = FnWeave()
            i += 1
            cur = None
            buf = []

            def flush():
                nonlocal cur, buf
                if cur is None:
                    return
                t = '\n'.join(buf) + '\n'
                if cur == 'attr':
                    w.attr = t
                elif cur == 'spec':
                    w.spec = t
                elif cur.startswith('at '):
                    w.at.append((cur[3:].strip(), t))
                elif cur.startswith('closure#'):
                    w.closures[int(cur[8:])] = t
                cur = None
                buf = []

            while i < n:
                s2 = lines[i].strip()
                if s2.startswith('//@'):
                    d2 = s2[3:].strip()
                    if d2.startswith('include-unit '):
                        # splice shared contract text (e.g. a contract that one unit proves and another one assumes)
                        sub = open(os.path.join(HERE, d2[len('include-unit '):].strip())).read().rstrip('\n').split('\n')
                        lines[i:i + 1] = sub
                        n = len(lines)
                        continue
                    flush()
                    if d2 == 'end':
                        break
                    if d2.startswith('ret '):
                        w.ret = d2[4:].strip()
                    elif d2 == 'novacuity':
                        w.novacuity = True
                    elif d2 == 'r5 slice':
                        w.r5slice = True
                    elif re.match(r'loop#\d+-iter\s+\w+$', d2):
                        # R7: names the ghost iterator of the k-th loop (a `for`): `for x in E` -> `for x in NAME: E`
                        mm = re.match(r'loop#(\d+)-iter\s+(\w+)$', d2)
                        w.iters[int(mm.group(1))] = mm.group(2)
                    elif d2 == 'r8 consts':
                        # R8b: `X::TYPE` -> the free const `X_TYPE` that rule R8 hoisted out of `impl AttributeStaticType for X`
                        # (same value by construction; Verus does not support associated constants in patterns)
                        w.r8b = True
                    elif d2 == 'r11' or d2.startswith('r11 '):
                        # R11: iterator adaptor chains -> their defining loops (vx/r11.py)
                        mm = re.match(r'r11\s+vec=(.+)$', d2)
                        w.r11 = {'vec': mm.group(1).strip() if mm else None}
                    elif d2.startswith('r14 '):
                        # R14: `S.len()` for a `&str` S -> `S.as_bytes().len()` (the definition of str::len in core::str; vstd specifies
                        # str::len only for ASCII text, but str::as_bytes as the UTF-8 encoding)
                        w.r14 += d2[4:].split()
                    elif d2 == 'r13':
                        # R13: `for PAT in EXPR BODY` -> its definition `loop { match it.next() { None => break, Some(PAT) => BODY } }`
                        w.r13 = True
                    elif d2.startswith('r12 '):
                        # R12: `-> impl Trait<..>` return type -> the concrete type the body returns (type annotation only)
                        w.r12 = d2[4:].strip()
                    elif d2 == 'body-opaque':
                        # the function is trusted (external_body): its body is not needed and may call helpers that are not extracted
                        w.opaque = True
                        w.novacuity = True
                    elif d2.startswith('rewrite '):
                        mm = re.match(r'rewrite\s+`(.*)`\s*=>\s*`(.*)`$', d2)
                        if not mm:
                            raise ExtractError('bad rewrite directive: %s' % d2)
                        w.rewrites.append((mm.group(1), mm.group(2)))
                    elif d2.startswith('label'):
                        pass
                    else:
                        cur = d2
                        buf = []
                else:
                    buf.append(lines[i])
                i += 1
            if i >= n:
                raise ExtractError('unterminated fn directive: %s' % d)
            i += 1
            src = get_source(f)
            try:
                it = src.find(path[:-1] + ['fn ' + path[-1]] if not path[-1].startswith('fn ') else path)
            except ScanError as e:
                raise ExtractError(str(e))
            raw = src.text[it.start:it.end]
            R5_SLICE[0] = w.r5slice
            try:
                txt = transform(raw, rules, 'fn')
            finally:
                R5_SLICE[0] = False
            fname = ' :: '.join(path)
            if w.r12:
                code12 = blank_noncode(txt)
                m12 = re.search(r'->\s*impl\b[^{]*?(?=\s*(?:where\b|\{))', code12)
                if not m12:
                    raise ExtractError('lost anchor: r12: fn %s has no `-> impl ..` return type' % fname)
                rules.hit('R12', 'fn %s: %s => -> %s' % (fname, norm(txt[m12.start():m12.end()])[:60], w.r12))
                txt = txt[:m12.start()] + '-> ' + w.r12 + txt[m12.end():]
            if w.r8b:
                def _r8b(mm):
                    if mm.group(1) == 'Self':
                        return mm.group(0)
                    rules.hit('R8', 'X::TYPE -> X_TYPE')
                    return mm.group(1).upper() + '_TYPE'
                txt = re.sub(r'\b([A-Z][A-Za-z0-9]*)::TYPE\b', _r8b, txt)
            def _degrade(why):
                w.opaque = True
                w.novacuity = True
                w.at, w.closures, w.iters, w.rewrites = [], {}, {}, []
                if 'external_body' not in w.attr:
                    w.attr = (w.attr.rstrip('\n') + '\n' if w.attr.strip() else '') + '#[verifier::external_body]\n'
                degraded.append({'function': f + ' :: ' + fname, 'reason': why})
            for nm in w.r14:
                new14, k14 = re.subn(r'\b%s\s*\.\s*len\s*\(\s*\)' % re.escape(nm), nm + '.as_bytes().len()', txt)
                if k14 == 0 and not w.opaque:
                    _degrade('lost anchor: r14: no `%s.len()` in fn %s' % (nm, fname))
                for _ in range(k14):
                    rules.hit('R14', 'fn %s: %s.len() -> %s.as_bytes().len()' % (fname, nm, nm))
                txt = new14
            if w.r13 and not w.opaque:
                try:
                    txt, notes13 = r11.desugar_for(txt)
                    for nt in notes13:
                        rules.hit('R13', 'fn %s: %s' % (fname, nt))
                except (r11.R11Error, ScanError) as e:
                    _degrade('lost anchor: r13: %s' % e)
            if w.r11 is not None and not w.opaque:
                try:
                    txt, notes11 = r11.desugar(txt, w.r11.get('vec'))
                    for nt in notes11:
                        rules.hit('R11', 'fn %s: %s' % (fname, nt))
                except (r11.R11Error, ScanError) as e:
                    _degrade('lost anchor: r11: %s' % e)
            if fname in degrade and not w.opaque:
                _degrade(degrade[fname])
            try:
                woven = weave_fn(txt, w, rules, vacuity=False, name=fname)
            except ExtractError as e:
                if 'lost anchor' not in str(e) or w.opaque:
                    raise
                _degrade(str(e))
                woven = weave_fn(txt, w, rules, vacuity=False, name=fname)
            a, b = emit('// ---- extracted fn: %s :: %s\n' % (f, fname) + woven)
            in_trait_impl = any(re.match(r'impl\b.*\bfor\b', seg) for seg in path[:-1])
            skip_vac = w.novacuity or in_trait_impl
            if vacuity and not skip_vac:
                # vacuity twin: same function under another name with `false` added to its postcondition;
                # it must FAIL to verify (otherwise its precondition is contradictory or no path returns)
                vw = weave_fn(txt, w, Rules(), vacuity=True, name=fname)
                vw, k = re.subn(r'\bfn\s+%s\b' % re.escape(it.name), 'fn vacuity__%s' % it.name, vw, count=1)
                if k != 1:
                    raise ExtractError('vacuity twin: cannot rename fn %s' % fname)
                emit('// ---- vacuity twin of %s\n' % fname + vw)
            fns.append({'file': f, 'path': fname, 'name': it.name, 'gen_lines': [a, b],
                        'src_lines': [src.text.count('\n', 0, it.start) + 1, src.text.count('\n', 0, it.end) + 1],
                        'novacuity': skip_vac})
            continue
        if d.startswith('require '):
            # existence check of an item the template mirrors by hand (trait declarations, external bodies)
            f, path = split_path(d[8:])
            f = aliases.get(f, f)
            src = get_source(f)
            try:
                src.find(path)
            except ScanError as e:
                raise ExtractError(str(e))
            items.append({'file': f, 'path': 'require ' + ' :: '.join(path), 'gen_lines': [0, 0]})
            i += 1
            continue
        if d.startswith('label') or d.startswith('#'):
            i += 1
            continue
        raise ExtractError('unknown directive: %s' % s)
    text = ''.join(out)
    scan = {}
    for kw in ('assume(', 'admit(', 'external_body', 'assume_specification', 'axiom fn', 'external_type_specification', 'external_fn_specification', 'uninterp spec fn'):
        scan[kw] = len(re.findall(re.escape(kw), blank_noncode(text)))
    # names of everything assumed in the generated file (external bodies = assumed contracts, axioms, assume_specification of std functions)
    code_ = blank_noncode(text)
    assumed = sorted(set(re.findall(r'#\[verifier::external_body\]\s*(?:#\[[^\]]*\]\s*)*(?:pub(?:\([a-z]+\))?\s+)?(?:fn|struct)\s+(\w+)', code_)))
    axioms = sorted(set(re.findall(r'\baxiom\s+fn\s+(\w+)', code_)))
    std_specs = sorted(set(x.strip() for x in re.findall(r'assume_specification\s*(?:<[^\[]*>)?\s*\[\s*(.+?)\s*\]\s*\(', code_)))
    info = {'functions': fns, 'items': items, 'rules_fired': rules.fired, 'rule_notes': rules.dropped, 'assumption_scan': scan, 'degraded': degraded,
            'assumed_names': {'external_body': assumed, 'axioms': axioms, 'assume_specification': std_specs}}
    return text, info


def main():
    import argparse
    ap = argparse.ArgumentParser()
    ap.add_argument('unit')
    ap.add_argument('-o', '--out', required=True)
    ap.add_argument('--vacuity', action='store_true')
    a = ap.parse_args()
    try:
        text, info = build_unit(a.unit, vacuity=a.vacuity)
    except (ExtractError, ScanError) as e:
        print('EXTRACT-ERROR: %s' % e, file=sys.stderr)
        sys.exit(2)
    open(a.out, 'w').write(text)
    open(a.out + '.info.json', 'w').write(json.dumps(info, indent=1))


if __name__ == '__main__':
    main()
