"""Rule R11: iterator adaptor chains are replaced by the loops that define them.

  SRC [.map(|p| e) | .filter(|p| e)]* .any(|p| e)            SRC [...]* .collect()        SRC [...]* .sum::<T>()
  SRC [...]* .fold(init, |acc, p| e)                          SRC .find(|p| e)

`Iterator::{any, find, sum, fold, collect::<Vec<_>>}` are provided methods defined (core::iter) as a loop over `next()`;
`map` / `filter` are lazy adaptors that apply their closure to each element as it is pulled.  The generated text is that
definition with the closures of the real code pasted in (`p` bound by a `let`, the body verbatim): the closure bodies, the
source expression and the order of evaluation per element are those of the code that runs; what is *trusted* is that the
std adaptors are their documented definitions (listed in the evidence as rule R11).

Generated shapes (N = ordinal of the chain in the function, k = stage):

  ({ let mut r11_itN = SRC; <init> let mut r11_moreN = true;
     while r11_moreN {                                    // <- the function's loop#k for invariants (R7)
         match r11_itN.next() {
             None => { r11_moreN = false; }
             Some(r11_vN_0) => { <stages> <consume> }
         }
     }
     <result> })

  find (no stages):
  ({ let mut r11_itN = SRC; let mut r11_curN = r11_itN.next(); let mut r11_moreN = true;
     while r11_moreN {
         let r11_stopN = match &r11_curN { None => true, Some(r11_vN_0) => { let p = r11_vN_0; e } };
         if r11_stopN { r11_moreN = false; } else { r11_curN = r11_itN.next(); }
     }
     r11_curN })

A closure parameter `&x` (reference pattern; Verus has none) becomes `let x = *v;` - identical for the `Copy` types such a
pattern requires.
"""
import re

from rustscan import blank_noncode, match_close, match_open, skip_ws

CONSUMERS = ('any', 'find', 'collect', 'sum', 'fold')
STAGES = ('map', 'filter')


class R11Error(Exception):
    pass


def _rskip_ws(code, i):
    while i > 0 and code[i - 1].isspace():
        i -= 1
    return i


def _identch(c):
    return c.isalnum() or c == '_'


def _turbofish_start(code, i):
    """code[:i] ends with `::<...>`: return index of the `::`, else None"""
    k = _rskip_ws(code, i)
    if k == 0 or code[k - 1] != '>':
        return None
    depth = 0
    j = k - 1
    while j >= 0:
        if code[j] == '>':
            depth += 1
        elif code[j] == '<':
            depth -= 1
            if depth == 0:
                break
        elif code[j] in ';{}':
            return None
        j -= 1
    if j < 2:
        return None
    k2 = _rskip_ws(code, j)
    if code[k2 - 2:k2] == '::':
        return k2 - 2
    return None


def chain_start(code, end):
    """start index of the postfix expression that ends at `end` (exclusive)"""
    i = end
    while True:
        i = _rskip_ws(code, i)
        if i == 0:
            return i
        c = code[i - 1]
        if c in ')]':
            i = match_open(code, i - 1)
            t = _turbofish_start(code, i)
            if t is not None:
                i = t
            k = _rskip_ws(code, i)
            if k > 0 and _identch(code[k - 1]):
                i = k
                while i > 0 and _identch(code[i - 1]):
                    i -= 1
            else:
                return i  # parenthesised primary
        elif c == '?':
            i -= 1
            continue
        elif _identch(c):
            while i > 0 and _identch(code[i - 1]):
                i -= 1
        else:
            return i
        k = _rskip_ws(code, i)
        if k >= 2 and code[k - 2:k] == '::':
            i = k - 2
            continue
        if k >= 1 and code[k - 1] == '.' and not (k >= 2 and code[k - 2] == '.'):
            i = k - 1
            continue
        return i


def _last_call(code, end):
    """the expression code[:end] ends with `.name[::<..>](args)`: return (dot_pos, name, args_open, args_close) or None"""
    k = _rskip_ws(code, end)
    if k == 0 or code[k - 1] != ')':
        return None
    close = k - 1
    op = match_open(code, close)
    i = op
    t = _turbofish_start(code, i)
    if t is not None:
        i = t
    k = _rskip_ws(code, i)
    j = k
    while j > 0 and _identch(code[j - 1]):
        j -= 1
    if j == k:
        return None
    name = code[j:k]
    d = _rskip_ws(code, j)
    if d == 0 or code[d - 1] != '.':
        return None
    return d - 1, name, op, close


def parse_closure(text, code, a, b):
    """text[a:b] are the arguments of a call consisting of one closure; returns (params list, body text)"""
    i = skip_ws(code, a)
    if code.startswith('move', i) and not _identch(code[i + 4]):
        i = skip_ws(code, i + 4)
    if i >= b or code[i] != '|':
        return None
    if code[i + 1] == '|':
        return [], text[i + 2:b].strip()
    j = i + 1
    depth = 0
    while j < b:
        if code[j] in '([<':
            depth += 1
        elif code[j] in ')]>':
            depth -= 1
        elif code[j] == '|' and depth <= 0:
            break
        j += 1
    if j >= b:
        return None
    params = []
    cur = []
    depth = 0
    for ch in text[i + 1:j]:
        if ch in '([<':
            depth += 1
        elif ch in ')]>':
            depth -= 1
        if ch == ',' and depth == 0:
            params.append(''.join(cur).strip())
            cur = []
        else:
            cur.append(ch)
    if ''.join(cur).strip():
        params.append(''.join(cur).strip())
    body = text[j + 1:b].strip()
    if body.startswith('->'):
        raise R11Error('closure with a return type annotation')
    return params, body


def bind(pat, val, byref):
    """let statements binding closure parameter `pat` to element `val`.  byref: the closure receives `&val`."""
    pat = pat.strip()
    m = re.match(r'^&\s*([A-Za-z_][A-Za-z0-9_]*)$', pat)
    if m:
        # reference pattern: x = *arg
        return 'let %s = %s;' % (m.group(1), val if byref else '*' + val)
    if pat.startswith('&'):
        raise R11Error('unsupported closure parameter pattern %r' % pat)
    return 'let %s = %s;' % (pat, ('&' + val) if byref else val)


def _strip_line_comments(text, code, a, b):
    """text[a:b] without `// ...` comments (the generated code joins lines)"""
    out = []
    i = a
    while i < b:
        if text.startswith('//', i) and code[i] == ' ':
            ls = text.rfind('\n', 0, i) + 1
            if text[ls:i].count('"') % 2 == 0:
                j = text.find('\n', i)
                i = b if j < 0 or j > b else j
                continue
        out.append(text[i])
        i += 1
    return ''.join(out)


def desugar(text, vec_type=None):
    """returns (new_text, [descriptions])"""
    notes = []
    n_chain = 0
    guard = 0
    while True:
        guard += 1
        if guard > 50:
            raise R11Error('too many chains')
        code = blank_noncode(text)
        hit = None
        for m in re.finditer(r'\.\s*(%s)\s*(::\s*<[^;{}()]*?>\s*)?\(' % '|'.join(CONSUMERS), code):
            name = m.group(1)
            op = m.end() - 1
            cl = match_close(code, op)
            if name in ('any', 'find'):
                c = parse_closure(text, code, op + 1, cl)
                if c is None or len(c[0]) != 1:
                    continue
            elif name == 'fold':
                pass
            elif name in ('collect', 'sum'):
                if code[op + 1:cl].strip():
                    continue
            hit = (m, name, op, cl)
            break
        if not hit:
            return text, notes
        m, name, op, cl = hit
        n_chain += 1
        N = n_chain
        dot = m.start()
        turbofish = (m.group(2) or '').strip()
        # stages, walking backwards from the consumer
        stages = []
        end = dot
        while True:
            lc = _last_call(code, end)
            if not lc or lc[1] not in STAGES:
                break
            d, sname, sop, scl = lc
            c = parse_closure(text, code, sop + 1, scl)
            if c is None or len(c[0]) != 1:
                break
            stages.insert(0, (sname, c[0][0], c[1]))
            end = d
        src_start = chain_start(code, end)
        src = _strip_line_comments(text, code, src_start, end).strip()
        if not src:
            raise R11Error('empty iterator source before .%s' % name)
        it, more = 'r11_it%d' % N, 'r11_more%d' % N
        v = lambda k: 'r11_v%d_%d' % (N, k)
        if name == 'find':
            if stages:
                raise R11Error('find after map/filter is not supported by R11')
            (p,), body = parse_closure(text, code, op + 1, cl)
            cur, stop = 'r11_cur%d' % N, 'r11_stop%d' % N
            # the closure receives `&Item`; `&r11_cur` matched with `Some(v)` already binds v: &Item
            b = bind(p, v(0), byref=False) if not p.strip().startswith('&') else 'let %s = *%s;' % (p.strip()[1:].strip(), v(0))
            gen = ('({ let mut %s = %s; let mut %s = %s.next(); let mut %s = true;\n'
                   '        while %s {\n'
                   '            let %s = match &%s { None => true, Some(%s) => { %s %s } };\n'
                   '            if %s { %s = false; } else { %s = %s.next(); }\n'
                   '        }\n'
                   '        %s })') % (it, src, cur, it, more, more, stop, cur, v(0), b, body, stop, more, cur, it, cur)
            notes.append('find over `%s`' % re.sub(r'\s+', ' ', src)[:60])
        else:
            inner = []
            closes = 0
            k = 0
            for (sname, p, body) in stages:
                if sname == 'map':
                    inner.append('let %s = { %s %s };' % (v(k + 1), bind(p, v(k), byref=False), body))
                else:
                    keep = 'r11_keep%d_%d' % (N, k + 1)
                    inner.append('let %s = { %s %s };' % (keep, bind(p, v(k), byref=True), body))
                    inner.append('let %s = %s;' % (v(k + 1), v(k)))
                    inner.append('if %s {' % keep)
                    closes += 1
                k += 1
            last = v(k)
            if name == 'any':
                (p,), body = parse_closure(text, code, op + 1, cl)
                acc = 'r11_any%d' % N
                init = 'let mut %s = false;' % acc
                inner.append('let r11_hit%d = { %s %s };' % (N, bind(p, last, byref=False), body))
                inner.append('if r11_hit%d { %s = true; %s = false; }' % (N, acc, more))
                result = acc
            elif name == 'collect':
                acc = 'r11_vec%d' % N
                ty = None
                if turbofish and '_' not in turbofish:
                    ty = turbofish[2:].strip()[1:-1].strip()
                if ty is None:
                    pre = code[:src_start]
                    mm = re.search(r'\blet\s+(?:mut\s+)?[A-Za-z_][A-Za-z0-9_]*\s*:\s*([^=;]+?)\s*=\s*$', pre)
                    if mm:
                        ty = text[mm.start(1):mm.end(1)].strip()
                if ty is None:
                    ty = vec_type
                init = 'let mut %s%s = Vec::new();' % (acc, (': ' + ty) if ty else '')
                inner.append('%s.push(%s);' % (acc, last))
                result = acc
            elif name == 'sum':
                acc = 'r11_sum%d' % N
                ty = turbofish[2:].strip()[1:-1].strip() if turbofish else None
                init = 'let mut %s%s = 0;' % (acc, (': ' + ty) if ty else '')
                inner.append('%s = %s + %s;' % (acc, acc, last))
                result = acc
            elif name == 'fold':
                # fold(INIT, |acc, x| body)
                a0 = op + 1
                depth = 0
                j = a0
                while j < cl:
                    if code[j] in '([{':
                        depth += 1
                    elif code[j] in ')]}':
                        depth -= 1
                    elif code[j] == ',' and depth == 0:
                        break
                    j += 1
                if j >= cl:
                    raise R11Error('fold without two arguments')
                init_e = text[a0:j].strip()
                c = parse_closure(text, code, j + 1, cl)
                if c is None or len(c[0]) != 2:
                    raise R11Error('fold closure must have two parameters')
                acc = 'r11_acc%d' % N
                init = 'let mut %s = %s;' % (acc, init_e)
                inner.append('%s = { let %s = %s; %s %s };' % (acc, c[0][0], acc, bind(c[0][1], last, byref=False), c[1]))
                result = acc
            inner_txt = '\n                    '.join(inner) + ' }' * closes
            gen = ('({ let mut %s = %s; %s let mut %s = true;\n'
                   '        while %s {\n'
                   '            match %s.next() {\n'
                   '                None => { %s = false; }\n'
                   '                Some(%s) => {\n'
                   '                    %s\n'
                   '                }\n'
                   '            }\n'
                   '        }\n'
                   '        %s })') % (it, src, init, more, more, it, more, v(0), inner_txt, result)
            notes.append('%s%s over `%s`' % (''.join(s[0] + '.' for s in stages), name, re.sub(r'\s+', ' ', src)[:60]))
        text = text[:src_start] + gen + text[cl + 1:]


def desugar_for(text):
    """Rule R13: `for PAT in EXPR BODY` -> `{ let mut r13_itN = EXPR; loop { match r13_itN.next() { None => { break; } Some(PAT) => BODY } } }`
    (the definition of `for` in the Rust reference; `IntoIterator::into_iter` is the identity for the iterator types this is used
    on).  `break` / `continue` / `return` inside BODY keep their meaning.  Returns (text, notes)."""
    notes = []
    n = 0
    while True:
        code = blank_noncode(text)
        m = None
        for mm in re.finditer(r'\bfor\b', code):
            nxt = skip_ws(code, mm.end())
            if code[nxt] == '<':
                continue   # `for<'a>` in a type
            m = mm
            break
        if not m:
            return text, notes
        n += 1
        # PAT up to the keyword `in` at depth 0
        i = m.end()
        depth = 0
        while i < len(code):
            if code[i] in '([{':
                depth += 1
            elif code[i] in ')]}':
                depth -= 1
            elif depth == 0 and re.match(r'\bin\b', code[i:i + 3]) and not _identch(code[i - 1]) and not _identch(code[i + 2]):
                break
            i += 1
        if i >= len(code):
            raise R11Error('for without in')
        pat = text[m.end():i].strip()
        # EXPR up to the body `{` at depth 0
        j = i + 2
        depth = 0
        while j < len(code):
            if code[j] in '([':
                depth += 1
            elif code[j] in ')]':
                depth -= 1
            elif code[j] == '{' and depth == 0:
                break
            j += 1
        expr = text[i + 2:j].strip()
        body_close = match_close(code, j)
        body = text[j:body_close + 1]
        it = 'r13_it%d' % n
        gen = '{ let mut %s = %s;\n        loop {\n            match %s.next() {\n                None => { break; }\n                Some(%s) => %s\n            }\n        } }' % (it, expr, it, pat, body)
        notes.append('for %s in `%s`' % (pat, re.sub(r'\s+', ' ', expr)[:60]))
        text = text[:m.start()] + gen + text[body_close + 1:]
