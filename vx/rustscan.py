"""Minimal Rust source scanner used by the VX extractor.

It does not parse Rust; it lexes enough (comments, string/char literals, lifetimes, brackets)
to locate items by kind+name, to find the extent of blocks and statements, and to find
loops / closures inside a function body.  Everything is position based on the original text,
so extracted text is copied verbatim.
"""
import re


class ScanError(Exception):
    pass


def blank_noncode(s):
    """Return a string of the same length as s in which comments and the contents of
    string / char literals are replaced by spaces (newlines kept)."""
    out = list(s)
    n = len(s)
    i = 0

    def blank(a, b):
        for k in range(a, b):
            if out[k] != '\n':
                out[k] = ' '

    while i < n:
        c = s[i]
        if c == '/' and i + 1 < n and s[i + 1] == '/':
            j = s.find('\n', i)
            if j < 0:
                j = n
            blank(i, j)
            i = j
        elif c == '/' and i + 1 < n and s[i + 1] == '*':
            depth = 1
            j = i + 2
            while j < n and depth > 0:
                if s.startswith('/*', j):
                    depth += 1
                    j += 2
                elif s.startswith('*/', j):
                    depth -= 1
                    j += 2
                else:
                    j += 1
            blank(i, j)
            i = j
        elif c == '"' or (c == 'b' and i + 1 < n and s[i + 1] == '"' and not _identch(s, i - 1)):
            st = i
            if c == 'b':
                i += 1
            j = i + 1
            while j < n and s[j] != '"':
                if s[j] == '\\':
                    j += 1
                j += 1
            blank(st, j + 1)
            i = j + 1
        elif c == 'r' and not _identch(s, i - 1) and re.match(r'r#*"', s[i:i + 10]):
            m = re.match(r'r(#*)"', s[i:i + 10])
            hashes = m.group(1)
            end = s.find('"' + hashes, i + len(m.group(0)))
            if end < 0:
                raise ScanError('unterminated raw string')
            j = end + 1 + len(hashes)
            blank(i, j)
            i = j
        elif c == "'":
            # char literal or lifetime
            if i + 1 < n and s[i + 1] == '\\':
                j = s.find("'", i + 2)
                if s[i + 2] == "'":  # '\''
                    j = s.find("'", i + 3)
                blank(i, j + 1)
                i = j + 1
            elif i + 2 < n and s[i + 2] == "'":
                blank(i, i + 3)
                i = i + 3
            else:
                i += 1  # lifetime
        else:
            i += 1
    return ''.join(out)


def _identch(s, i):
    return i >= 0 and i < len(s) and (s[i].isalnum() or s[i] == '_')


OPEN = {'(': ')', '[': ']', '{': '}'}
CLOSE = {')': '(', ']': '[', '}': '{'}


def match_close(code, i):
    """code[i] is an opening bracket; return index of its matching close bracket."""
    assert code[i] in OPEN, (code[i], i)
    depth = 0
    n = len(code)
    j = i
    while j < n:
        c = code[j]
        if c in OPEN:
            depth += 1
        elif c in CLOSE:
            depth -= 1
            if depth == 0:
                return j
        j += 1
    raise ScanError('unbalanced bracket at %d' % i)


def match_open(code, i):
    """code[i] is a closing bracket; return index of its matching open bracket."""
    assert code[i] in CLOSE
    depth = 0
    j = i
    while j >= 0:
        c = code[j]
        if c in CLOSE:
            depth += 1
        elif c in OPEN:
            depth -= 1
            if depth == 0:
                return j
        j -= 1
    raise ScanError('unbalanced bracket at %d' % i)


def skip_ws(code, i):
    n = len(code)
    while i < n and code[i].isspace():
        i += 1
    return i


def norm(s):
    return re.sub(r'\s+', '', s)


ITEM_KW = ('fn', 'struct', 'enum', 'impl', 'trait', 'const', 'static', 'type', 'use', 'mod',
           'macro_rules', 'union')
MODIFIERS = ('pub', 'unsafe', 'async', 'extern', 'default')


class Item:
    def __init__(self, kind, name, start, sig_start, body_open, end, header):
        self.kind = kind          # 'fn', 'struct', ...
        self.name = name          # identifier, or normalised header for impl
        self.start = start        # start including attributes / doc comments
        self.sig_start = sig_start  # start of visibility / keyword
        self.body_open = body_open  # index of '{' of the body, or None
        self.end = end            # one past the last char
        self.header = header      # text from sig_start to body_open (or end)

    def __repr__(self):
        return 'Item(%s %s %d..%d)' % (self.kind, self.name, self.start, self.end)


def _word_at(code, i):
    m = re.match(r'[A-Za-z_][A-Za-z0-9_]*', code[i:i + 64])
    return m.group(0) if m else None


def scan_items(text, code, start, end):
    """Scan items in text[start:end] (a module body or an impl/trait body)."""
    items = []
    i = start
    while True:
        i = skip_ws_and_comments(text, code, i, end)
        if i >= end:
            break
        item_start = i
        # attributes and doc comments
        while True:
            i = skip_ws(code, i)
            # doc comments are blanked in code; skip_ws passes them. Detect attributes.
            if code.startswith('#[', i) or code.startswith('#![', i):
                j = code.index('[', i)
                i = match_close(code, j) + 1
            else:
                break
        sig_start = i
        if i >= end:
            break
        # modifiers
        while True:
            w = _word_at(code, i)
            if w in MODIFIERS:
                i += len(w)
                i = skip_ws(code, i)
                if w == 'pub' and code[i] == '(':
                    i = match_close(code, i) + 1
                    i = skip_ws(code, i)
                if w == 'extern' and text[i] == '"':
                    i = text.index('"', i + 1) + 1
                    i = skip_ws(code, i)
            else:
                break
        w = _word_at(code, i)
        if w == 'const' and _word_at(code, skip_ws(code, i + 5)) in ('fn', 'unsafe', 'async', 'extern'):
            i = skip_ws(code, i + 5)
            w = _word_at(code, i)
            while w in MODIFIERS:
                i = skip_ws(code, i + len(w))
                w = _word_at(code, i)
        if w not in ITEM_KW:
            # macro invocation item (e.g. `bytewise_xor!{}`) or something unknown: skip to ; or block
            j = i
            while j < end and code[j] not in ';{':
                if code[j] in '([':
                    j = match_close(code, j)
                j += 1
            if j < end and code[j] == '{':
                j = match_close(code, j)
            items.append(Item('other', None, item_start, sig_start, None, j + 1, text[sig_start:j + 1]))
            i = j + 1
            continue
        kw = w
        kw_pos = i
        i += len(kw)
        if kw == 'macro_rules':
            i = skip_ws(code, i)
            assert code[i] == '!'
            i = skip_ws(code, i + 1)
            name = _word_at(code, i)
            j = i
            while code[j] not in '({[':
                j += 1
            k = match_close(code, j)
            e = k + 1
            if code[j] != '{':
                e2 = skip_ws(code, e)
                if e2 < end and code[e2] == ';':
                    e = e2 + 1
            items.append(Item('macro_rules', name, item_start, sig_start, j, e, text[sig_start:j]))
            i = e
            continue
        # find end: first ';' or '{' at depth 0
        j = i
        body_open = None
        while j < end:
            c = code[j]
            if c in '([':
                j = match_close(code, j) + 1
                continue
            if c == '<' and kw in ('impl', 'fn', 'struct', 'enum', 'trait', 'type'):
                pass
            if c == '{':
                body_open = j
                break
            if c == ';':
                break
            j += 1
        if j >= end:
            raise ScanError('item without end at %d: %r' % (sig_start, text[sig_start:sig_start + 60]))
        if body_open is not None and kw in ('const', 'static', 'type', 'use'):
            # `{` belongs to an initialiser / use group; end at ';' depth 0
            k = j
            while k < end and code[k] != ';':
                if code[k] in OPEN:
                    k = match_close(code, k)
                k += 1
            item_end = k + 1
            body_open = None
        elif body_open is not None:
            item_end = match_close(code, body_open) + 1
        else:
            item_end = j + 1
        if kw == 'impl':
            name = norm(text[kw_pos:body_open])
        elif kw == 'use':
            name = norm(text[i:item_end - 1])
        else:
            name = _word_at(code, skip_ws(code, i))
        hdr_end = body_open if body_open is not None else item_end
        items.append(Item(kw, name, item_start, sig_start, body_open, item_end, text[sig_start:hdr_end]))
        i = item_end
    return items


def skip_ws_and_comments(text, code, i, end):
    # comments are blanked in `code`, so whitespace skipping over `code` skips them too
    while i < end and code[i].isspace():
        i += 1
    return i


class Source:
    def __init__(self, path):
        self.path = path
        self.text = open(path).read()
        self.code = blank_noncode(self.text)
        self.items = scan_items(self.text, self.code, 0, len(self.text))

    def children(self, item):
        if item.body_open is None:
            return []
        return scan_items(self.text, self.code, item.body_open + 1, item.end - 1)

    def find(self, path):
        """path: list like ['impl<'a> Message<'a>', 'fn from_bytes'] or ['struct RawAttribute'].
        Returns the unique matching Item (searching all impl blocks with the same header)."""
        cands = [(None, it) for it in self.items]
        # descend into non-test inline modules transparently? No: only top level + impl/trait bodies.
        for depth, seg in enumerate(path):
            seg = seg.strip()
            m = re.match(r'(fn|struct|enum|trait|const|static|type|mod|macro_rules|union)\s+(.*)$', seg)
            found = []
            for _, it in cands:
                if seg.startswith('impl'):
                    if it.kind == 'impl' and it.name == norm(seg):
                        found.append(it)
                elif m and it.kind == m.group(1) and it.name == m.group(2).strip():
                    found.append(it)
            if not found:
                raise ScanError('lost anchor: %s :: %s' % (self.path, ' :: '.join(path)))
            if depth == len(path) - 1:
                if len(found) > 1:
                    raise ScanError('ambiguous anchor: %s :: %s (%d matches)' % (self.path, ' :: '.join(path), len(found)))
                return found[0]
            cands = []
            for it in found:
                cands.extend((it, ch) for ch in self.children(it))
        raise ScanError('empty path')
