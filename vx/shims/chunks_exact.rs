// TRUSTED SHIM (core::slice::ChunksExact): `s.chunks_exact(n)` yields the consecutive n-element sub-slices of s, front to back, and
// stops when fewer than n elements remain (core::slice documentation).  Abstract state: the part of the slice not yet yielded.
#[verifier::external_type_specification]
#[verifier::external_body]
#[verifier::reject_recursive_types(T)]
pub struct ExChunksExact<'a, T: 'a>(core::slice::ChunksExact<'a, T>);
pub uninterp spec fn ce_rest<'a, T>(it: core::slice::ChunksExact<'a, T>) -> Seq<T>;
pub uninterp spec fn ce_n<'a, T>(it: core::slice::ChunksExact<'a, T>) -> nat;
pub assume_specification<'a, T> [ <[T]>::chunks_exact ] (s: &'a [T], n: usize) -> (r: core::slice::ChunksExact<'a, T>)
    requires n != 0
    ensures ce_rest(r) == s@, ce_n(r) == n as nat;
pub assume_specification<'a, T> [ <core::slice::ChunksExact<'a, T> as Iterator>::next ] (it: &mut core::slice::ChunksExact<'a, T>) -> (r: Option<&'a [T]>)
    ensures
        ce_n(*final(it)) == ce_n(*old(it)),
        ce_rest(*old(it)).len() < ce_n(*old(it)) ==> r is None && ce_rest(*final(it)) == ce_rest(*old(it)),
        ce_rest(*old(it)).len() >= ce_n(*old(it)) ==> r is Some && r->Some_0@ == ce_rest(*old(it)).subrange(0, ce_n(*old(it)) as int)
            && ce_rest(*final(it)) == ce_rest(*old(it)).subrange(ce_n(*old(it)) as int, ce_rest(*old(it)).len() as int);
