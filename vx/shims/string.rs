// TRUSTED SHIM (alloc::string): a String's bytes are the UTF-8 encoding of its characters
pub assume_specification [ std::string::String::as_bytes ] (s: &std::string::String) -> (r: &[u8])
    ensures r@ == vstd::utf8::encode_utf8(s@);
pub assume_specification [ std::string::String::len ] (s: &std::string::String) -> (r: usize)
    ensures r == vstd::utf8::encode_utf8(s@).len();
