// ASSUMED CONTRACTS ON DEPENDENCIES of stun-proto/src/agent.rs (types of crate stun-types and std::net).
// Each is an opaque stand-in whose methods are uninterpreted spec functions: the agent unit is verified
// against *whatever* these functions return.  What they return is the subject of other properties
// (MessageBuilder::build: C03/C11/C12; Message::validate_integrity: C04; is_response/transaction_id: C02/C19).
#[verifier::external_type_specification]
#[verifier::external_body]
pub struct ExSocketAddr(SocketAddr);
pub broadcast axiom fn axiom_sockaddr_key_model()
    ensures #[trigger] obeys_key_model::<SocketAddr>(), builds_valid_hashers::<std::collections::hash_map::RandomState>();

pub struct AttributeType(pub u16);
pub const MESSAGEINTEGRITY_TYPE: AttributeType = AttributeType(0x0008);
pub const MESSAGEINTEGRITYSHA256_TYPE: AttributeType = AttributeType(0x001C);
pub trait AttributeStaticType { const TYPE: AttributeType; }
pub struct MessageIntegrity;
pub struct MessageIntegritySha256;
impl AttributeStaticType for MessageIntegrity { const TYPE: AttributeType = MESSAGEINTEGRITY_TYPE; }
impl AttributeStaticType for MessageIntegritySha256 { const TYPE: AttributeType = MESSAGEINTEGRITYSHA256_TYPE; }
pub proof fn lemma_mi_types() ensures MESSAGEINTEGRITY_TYPE.0 == 0x0008, MESSAGEINTEGRITYSHA256_TYPE.0 == 0x001c {}

#[verifier::external_body]
pub struct MessageIntegrityCredentials { _p: core::marker::PhantomData<u8> }
#[derive(Debug)]
pub enum StunParseError { Opaque }
#[derive(Debug)]
pub enum StunWriteError { Opaque }
pub enum IntegrityAlgorithm { Sha1, Sha256 }

#[verifier::external_body]
pub struct MessageBuilder<'a> { _p: core::marker::PhantomData<&'a u8> }
impl<'a> MessageBuilder<'a> {
    pub uninterp spec fn spec_build(&self) -> Seq<u8>;
    pub uninterp spec fn spec_tid(&self) -> TransactionId;
    pub uninterp spec fn spec_has_class(&self, c: MessageClass) -> bool;
    pub uninterp spec fn spec_has_attribute(&self, t: u16) -> bool;
    #[verifier::external_body]
    pub fn build(&self) -> (r: Vec<u8>) ensures r@ == self.spec_build() { unimplemented!() }
    #[verifier::external_body]
    pub fn transaction_id(&self) -> (r: TransactionId) ensures r == self.spec_tid() { unimplemented!() }
    #[verifier::external_body]
    pub fn has_class(&self, cls: MessageClass) -> (r: bool) ensures r == self.spec_has_class(cls) { unimplemented!() }
    #[verifier::external_body]
    pub fn has_attribute(&self, atype: AttributeType) -> (r: bool) ensures r == self.spec_has_attribute(atype.0) { unimplemented!() }
}

#[verifier::external_body]
pub struct Message<'a> { _p: core::marker::PhantomData<&'a u8> }
impl<'a> Message<'a> {
    pub uninterp spec fn spec_is_response(&self) -> bool;
    pub uninterp spec fn spec_tid(&self) -> TransactionId;
    pub uninterp spec fn spec_validate(&self, c: MessageIntegrityCredentials) -> Result<IntegrityAlgorithm, StunParseError>;
    #[verifier::external_body]
    pub fn is_response(&self) -> (r: bool) ensures r == self.spec_is_response() { unimplemented!() }
    #[verifier::external_body]
    pub fn transaction_id(&self) -> (r: TransactionId) ensures r == self.spec_tid() { unimplemented!() }
    #[verifier::external_body]
    pub fn validate_integrity(&self, credentials: &MessageIntegrityCredentials) -> (r: Result<IntegrityAlgorithm, StunParseError>)
        ensures r == self.spec_validate(*credentials) { unimplemented!() }
}

// TransactionId derives Ord/Eq structurally on its single u128 field
pub broadcast axiom fn axiom_tid_key_model()
    ensures #[trigger] vstd::laws_cmp::obeys_cmp_spec::<TransactionId>();

