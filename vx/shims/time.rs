// TRUSTED SHIM (std::time): Instant is a point on an integer nanosecond axis; `Instant + Duration` is
// the mathematical sum (the real function panics on i64-seconds overflow, which needs > 2^63 s; the
// contracts bound every duration by 60 000 * 1024 ms) and comparison is comparison of the points.
// Cross-checked against the real Timespec arithmetic by KX harness k06_request_poll (thorough tier).
#[verifier::external_type_specification]
#[verifier::external_body]
pub struct ExInstant(Instant);
pub uninterp spec fn inst_ns(i: Instant) -> int;
pub uninterp spec fn dur_ns(d: Duration) -> nat;
pub uninterp spec fn spec_from_millis(ms: u64) -> Duration;
pub assume_specification [ Duration::from_millis ] (ms: u64) -> (d: Duration)
    ensures d == spec_from_millis(ms), dur_ns(d) == ms as nat * 1_000_000;
pub broadcast axiom fn axiom_instant_add_req(i: Instant, d: Duration)
    ensures #[trigger] <Instant as AddSpec<Duration>>::add_req(i, d);
pub broadcast axiom fn axiom_instant_add_obeys()
    ensures #[trigger] <Instant as AddSpec<Duration>>::obeys_add_spec();
pub broadcast axiom fn axiom_instant_add_val(i: Instant, d: Duration)
    ensures inst_ns(#[trigger] <Instant as AddSpec<Duration>>::add_spec(i, d)) == inst_ns(i) + dur_ns(d);
pub broadcast axiom fn axiom_instant_cmp_obeys()
    ensures #[trigger] <Instant as PartialOrdSpec<Instant>>::obeys_partial_cmp_spec();
pub broadcast axiom fn axiom_instant_cmp(a: Instant, b: Instant)
    ensures #[trigger] <Instant as PartialOrdSpec<Instant>>::partial_cmp_spec(&a, &b) == Some(if inst_ns(a) < inst_ns(b) { core::cmp::Ordering::Less } else if inst_ns(a) == inst_ns(b) { core::cmp::Ordering::Equal } else { core::cmp::Ordering::Greater });
pub broadcast group group_instant { axiom_instant_add_req, axiom_instant_add_obeys, axiom_instant_add_val, axiom_instant_cmp_obeys, axiom_instant_cmp }
// two Instants at the same point are the same Instant (Instant is a plain (secs, nanos) pair)
pub broadcast axiom fn axiom_instant_ext(a: Instant, b: Instant)
    ensures #[trigger] inst_ns(a) == #[trigger] inst_ns(b) ==> a == b;
// ---- Duration arithmetic used by StunRequestMut::configure_timeout (trusted: mathematical arithmetic on the nanosecond count; the
// real operators panic on overflow of a u64 second count, excluded by the mul_req / add_req bounds below)
pub assume_specification [ Duration::as_millis ] (d: &Duration) -> (r: u128)
    ensures r as int == dur_ns(*d) as int / 1_000_000;
pub open spec fn pow2(e: nat) -> nat decreases e { if e == 0 { 1 } else { 2 * pow2((e - 1) as nat) } }
pub assume_specification [ u32::pow ] (b: u32, e: u32) -> (r: u32)
    requires b == 2 && e < 32
    ensures r as nat == pow2(e as nat);
pub broadcast axiom fn axiom_duration_mul_req(d: Duration, k: u32)
    ensures #[trigger] <Duration as MulSpec<u32>>::mul_req(d, k) == (dur_ns(d) * k as nat <= 0xffff_ffff_ffff_ffff);
pub broadcast axiom fn axiom_duration_mul_obeys()
    ensures #[trigger] <Duration as MulSpec<u32>>::obeys_mul_spec();
pub broadcast axiom fn axiom_duration_mul_val(d: Duration, k: u32)
    ensures dur_ns(#[trigger] <Duration as MulSpec<u32>>::mul_spec(d, k)) == dur_ns(d) * k as nat;
pub broadcast axiom fn axiom_duration_add_req(a: Duration, b: Duration)
    ensures #[trigger] <Duration as AddSpec<Duration>>::add_req(a, b) == (dur_ns(a) + dur_ns(b) <= 0xffff_ffff_ffff_ffff);
pub broadcast axiom fn axiom_duration_add_obeys()
    ensures #[trigger] <Duration as AddSpec<Duration>>::obeys_add_spec();
pub broadcast axiom fn axiom_duration_add_val(a: Duration, b: Duration)
    ensures dur_ns(#[trigger] <Duration as AddSpec<Duration>>::add_spec(a, b)) == dur_ns(a) + dur_ns(b);
pub broadcast group group_duration { axiom_duration_mul_req, axiom_duration_mul_obeys, axiom_duration_mul_val, axiom_duration_add_req, axiom_duration_add_obeys, axiom_duration_add_val }
pub assume_specification [ Duration::ZERO ] -> (r: Duration)
    ensures dur_ns(r) == 0;
pub assume_specification [ Duration::from_secs ] (s: u64) -> (d: Duration)
    ensures dur_ns(d) == s as nat * 1_000_000_000;
