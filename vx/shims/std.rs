// TRUSTED SHIM (std): specifications of std functions vstd does not cover.
pub assume_specification<T: Clone> [ <[T]>::to_vec ] (s: &[T]) -> (r: Vec<T>)
    ensures r@ == s@;
pub assume_specification<T: PartialEq> [ <[T]>::contains ] (s: &[T], x: &T) -> (r: bool)
    ensures r == s@.contains(*x);
// `Vec::extend(&mut v, iter)` appends the items the iterator yields.  The item sequence of an
// arbitrary `IntoIterator` is uninterpreted; it is pinned (trusted axioms) only for the
// argument types the extracted code uses: `&[u8]` and `&[u8; N]` yield their elements in order.
pub uninterp spec fn spec_into_iter_items<T, I>(i: I) -> Seq<T>;
pub broadcast axiom fn axiom_into_iter_items_slice<'a>(s: &'a [u8])
    ensures #[trigger] spec_into_iter_items::<u8, &'a [u8]>(s) == s@;
pub broadcast axiom fn axiom_into_iter_items_array<'a, const N: usize>(s: &'a [u8; N])
    ensures #[trigger] spec_into_iter_items::<u8, &'a [u8; N]>(s) == s@;
pub assume_specification<'a, T, A, I> [<std::vec::Vec<T, A> as std::iter::Extend<&'a T>>::extend] (v: &mut std::vec::Vec<T, A>, i: I)
    where A: std::alloc::Allocator, I: std::iter::IntoIterator<Item = &'a T>, T: std::marker::Copy + 'a,
    ensures final(v)@ == old(v)@ + spec_into_iter_items::<T, I>(i);
// TRUSTED AXIOM (core): a slice never has more than isize::MAX elements (Rust allocation rule).
pub broadcast axiom fn axiom_slice_len_bound(s: &[u8])
    ensures #[trigger] s@.len() <= 0x7fff_ffff_ffff_ffff;
// `Vec::into_boxed_slice` keeps the elements
pub assume_specification<T, A: std::alloc::Allocator> [std::vec::Vec::<T, A>::into_boxed_slice] (v: std::vec::Vec<T, A>) -> (r: std::boxed::Box<[T], A>)
    ensures r@ == v@;
// `Result::and_then`: an error is passed on unchanged, a success is handed to the closure (core::result definition)
pub assume_specification<T, E, U, F> [std::result::Result::<T, E>::and_then] (r: std::result::Result<T, E>, f: F) -> (out: std::result::Result<U, E>)
    where F: std::ops::FnOnce(T,) -> std::result::Result<U, E> + std::marker::Destruct,
    requires r is Ok ==> f.requires((r->Ok_0,)),
    ensures r is Err ==> out is Err && out->Err_0 == r->Err_0,
            r is Ok ==> f.ensures((r->Ok_0,), out);
// `Option::map_or`: the default for None, the closure applied to the content otherwise (core::option definition)
pub assume_specification<T, U, F> [std::option::Option::<T>::map_or] (o: std::option::Option<T>, default: U, f: F) -> (out: U)
    where F: std::ops::FnOnce(T,) -> U + std::marker::Destruct, U: std::marker::Destruct, T: std::marker::Destruct,
    requires o is Some ==> f.requires((o->Some_0,)),
    ensures o is None ==> out == default,
            o is Some ==> f.ensures((o->Some_0,), out);
