// TRUSTED SHIMS for sub-slice writes through `&mut [u8]` (targets of rules R5/R5b/R5c; each stands for the original
// expression `X[a..b].copy_from_slice(Y)`, `X[a..b].fill(v)`, `BigEndian::write_uN(&mut X[a..b], v)`, whose panics are
// the `requires`).  Cross-checked on the real functions by KX harness k_shim_slices.
#[verifier::external_body]
pub fn slice_copy_at(dest: &mut [u8], a: usize, b: usize, src: &[u8])
    requires a <= b <= old(dest)@.len(), src@.len() == b - a
    ensures final(dest)@ == old(dest)@.subrange(0, a as int) + src@ + old(dest)@.subrange(b as int, old(dest)@.len() as int)
{ unimplemented!() }
#[verifier::external_body]
pub fn slice_fill_at(dest: &mut [u8], a: usize, b: usize, v: u8)
    requires a <= b <= old(dest)@.len()
    ensures final(dest)@ == old(dest)@.subrange(0, a as int) + Seq::new((b - a) as nat, |i: int| v) + old(dest)@.subrange(b as int, old(dest)@.len() as int)
{ unimplemented!() }
pub open spec fn be_bytes_u16(n: u16) -> Seq<u8> { seq![(n >> 8) as u8, (n & 0xff) as u8] }
pub open spec fn be_bytes_u32(n: u32) -> Seq<u8> { seq![(n >> 24) as u8, ((n >> 16) & 0xff) as u8, ((n >> 8) & 0xff) as u8, (n & 0xff) as u8] }
pub open spec fn be_bytes_u64(n: u64) -> Seq<u8> { be_bytes_u32((n >> 32) as u32) + be_bytes_u32((n & 0xffff_ffff) as u32) }
#[verifier::external_body]
pub fn be_write_u16_at_slice(dest: &mut [u8], a: usize, b: usize, n: u16)
    requires a + 2 <= b <= old(dest)@.len()
    ensures final(dest)@ == old(dest)@.subrange(0, a as int) + be_bytes_u16(n) + old(dest)@.subrange(a + 2, old(dest)@.len() as int)
{ unimplemented!() }
#[verifier::external_body]
pub fn be_write_u32_at_slice(dest: &mut [u8], a: usize, b: usize, n: u32)
    requires a + 4 <= b <= old(dest)@.len()
    ensures final(dest)@ == old(dest)@.subrange(0, a as int) + be_bytes_u32(n) + old(dest)@.subrange(a + 4, old(dest)@.len() as int)
{ unimplemented!() }
#[verifier::external_body]
pub fn be_write_u64_at_slice(dest: &mut [u8], a: usize, b: usize, n: u64)
    requires a + 8 <= b <= old(dest)@.len()
    ensures final(dest)@ == old(dest)@.subrange(0, a as int) + be_bytes_u64(n) + old(dest)@.subrange(a + 8, old(dest)@.len() as int)
{ unimplemented!() }
pub open spec fn be_bytes_u128(n: u128) -> Seq<u8> {
    seq![(n >> 120) as u8, (n >> 112) as u8, (n >> 104) as u8, (n >> 96) as u8, (n >> 88) as u8, (n >> 80) as u8, (n >> 72) as u8, (n >> 64) as u8,
         (n >> 56) as u8, (n >> 48) as u8, (n >> 40) as u8, (n >> 32) as u8, (n >> 24) as u8, (n >> 16) as u8, (n >> 8) as u8, n as u8]
}
#[verifier::external_body]
pub fn be_write_u128_at_slice(dest: &mut [u8], a: usize, b: usize, n: u128)
    requires a + 16 <= b <= old(dest)@.len()
    ensures final(dest)@ == old(dest)@.subrange(0, a as int) + be_bytes_u128(n) + old(dest)@.subrange(a + 16, old(dest)@.len() as int)
{ unimplemented!() }
// `BigEndian::write_u16(dest, v)` on a whole slice (the real call panics unless dest.len() >= 2)
#[verifier::external_body]
pub fn be_write_u16_slice(dest: &mut [u8], n: u16)
    requires old(dest)@.len() >= 2
    ensures final(dest)@ == be_bytes_u16(n) + old(dest)@.subrange(2, old(dest)@.len() as int)
{ unimplemented!() }
// AXIOM: the length of a slice is a usize (Rust guarantees at most isize::MAX bytes per allocation); Verus' slice view is an
// unbounded Seq, so offset arithmetic inside a slice needs this bound
pub axiom fn axiom_slice_len(s: &[u8]) ensures s@.len() <= usize::MAX;
