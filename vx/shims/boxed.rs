// TRUSTED AXIOM (alloc): `Box<[u8]>::from(&[u8])` (reached through `.into()`) copies the slice
pub broadcast axiom fn axiom_box_from_slice_obeys<'a>()
    ensures #[trigger] <&'a [u8] as vstd::std_specs::convert::IntoSpec<Box<[u8]>>>::obeys_into_spec();
pub broadcast axiom fn axiom_box_from_slice<'a>(s: &'a [u8])
    ensures (#[trigger] <&'a [u8] as vstd::std_specs::convert::IntoSpec<Box<[u8]>>>::into_spec(s))@ == s@;
pub broadcast group group_box_conversions { axiom_box_from_slice_obeys, axiom_box_from_slice }
