// TRUSTED SHIM (std::collections::btree_map::ValuesMut): the iterator `BTreeMap::values_mut` returns hands out, one key after the
// other, a mutable reference to the value stored under that key.  Abstract state of the iterator:
//   vm_todo  the keys not yet visited (no duplicates; at creation: exactly the keys of the map),
//   vm_base  the contents of the map as they will be once every reference handed out so far has been given back
//            (prophetic: `next` records `*final(r)` for the reference it returns),
//   vm_fin   the contents of the map when the borrow taken by `values_mut` ends (prophecy, constant over the iterator's life).
// When the iterator itself is dead (Verus' `has_resolved`), nothing more is handed out, hence vm_fin == vm_base - the same
// pattern vstd uses for the hash-map `Entry` types (axiom_has_resolved_entry).  Cross-checked by BX (agent histories step by step
// against the abstract agent); the visiting order (ascending keys) is deliberately NOT specified: no property depends on it.
#[verifier::external_type_specification]
#[verifier::external_body]
#[verifier::reject_recursive_types(K)]
#[verifier::reject_recursive_types(V)]
pub struct ExValuesMut<'a, K, V>(std::collections::btree_map::ValuesMut<'a, K, V>);
pub uninterp spec fn vm_todo<'a, K, V>(it: std::collections::btree_map::ValuesMut<'a, K, V>) -> Seq<K>;
pub uninterp spec fn vm_base<'a, K, V>(it: std::collections::btree_map::ValuesMut<'a, K, V>) -> Map<K, V>;
pub uninterp spec fn vm_fin<'a, K, V>(it: std::collections::btree_map::ValuesMut<'a, K, V>) -> Map<K, V>;
pub broadcast axiom fn axiom_vm_resolved<'a, K, V>(it: std::collections::btree_map::ValuesMut<'a, K, V>)
    ensures #[trigger] has_resolved(it) ==> vm_fin(it) == vm_base(it);
pub assume_specification<'a, K, V, A: std::alloc::Allocator + Clone>[ std::collections::BTreeMap::<K, V, A>::values_mut ](m: &'a mut std::collections::BTreeMap<K, V, A>) -> (r: std::collections::btree_map::ValuesMut<'a, K, V>)
    ensures vm_base(r) == old(m)@, vm_todo(r).to_set() == old(m)@.dom(), vm_todo(r).no_duplicates(), final(m)@ == vm_fin(r);
pub assume_specification<'a, K, V>[ <std::collections::btree_map::ValuesMut<'a, K, V> as Iterator>::next ](it: &mut std::collections::btree_map::ValuesMut<'a, K, V>) -> (r: Option<&'a mut V>)
    ensures
        vm_fin(*final(it)) == vm_fin(*old(it)),
        vm_todo(*old(it)).len() == 0 ==> r is None && *final(it) == *old(it),
        vm_todo(*old(it)).len() > 0 ==> r is Some && *r->Some_0 == vm_base(*old(it))[vm_todo(*old(it))[0]]
            && vm_todo(*final(it)) == vm_todo(*old(it)).drop_first()
            && vm_base(*final(it)) == vm_base(*old(it)).insert(vm_todo(*old(it))[0], *final(r->Some_0));
