// TRUSTED AXIOMS (core): `[u8; N] == [u8; N]` (and the `&`-level impl) compares element-wise.
// vstd leaves obeys_eq_spec open for arrays.
pub broadcast axiom fn array_u8_eq_spec<const N: usize>(a: [u8; N], b: [u8; N])
    ensures
        #[trigger] <[u8; N] as PartialEqSpec<[u8; N]>>::obeys_eq_spec(),
        #[trigger] PartialEqSpec::eq_spec(&a, &b) == (a@ == b@);
pub broadcast axiom fn array_ref_u8_eq_spec<'a, 'b, const N: usize>(a: &'a [u8; N], b: &'b [u8; N])
    ensures
        #[trigger] <&'a [u8; N] as PartialEqSpec<&'b [u8; N]>>::obeys_eq_spec(),
        #[trigger] PartialEqSpec::eq_spec(&a, &b) == (a@ == b@);
// TRUSTED (core): `<[u8; N]>::try_from(&[u8])` (reached through `.try_into()`) succeeds iff the slice has N elements and copies them
#[verifier::external_type_specification]
#[verifier::external_body]
pub struct ExTryFromSliceError(core::array::TryFromSliceError);
pub broadcast axiom fn axiom_array_try_from_slice_obeys<'a, const N: usize>()
    ensures #[trigger] <&'a [u8] as vstd::std_specs::convert::TryIntoSpec<[u8; N]>>::obeys_try_into_spec();
pub broadcast axiom fn axiom_array_try_from_slice<'a, const N: usize>(s: &'a [u8])
    ensures
        (#[trigger] <&'a [u8] as vstd::std_specs::convert::TryIntoSpec<[u8; N]>>::try_into_spec(s)) is Ok <==> s@.len() == N,
        s@.len() == N ==> (<&'a [u8] as vstd::std_specs::convert::TryIntoSpec<[u8; N]>>::try_into_spec(s))->Ok_0@ == s@;
// same for the borrowing conversion `<&[u8; N]>::try_from(&[u8])`
pub broadcast axiom fn axiom_array_ref_try_from_slice_obeys<'a, const N: usize>()
    ensures #[trigger] <&'a [u8] as vstd::std_specs::convert::TryIntoSpec<&'a [u8; N]>>::obeys_try_into_spec();
pub broadcast axiom fn axiom_array_ref_try_from_slice<'a, const N: usize>(s: &'a [u8])
    ensures
        (#[trigger] <&'a [u8] as vstd::std_specs::convert::TryIntoSpec<&'a [u8; N]>>::try_into_spec(s)) is Ok <==> s@.len() == N,
        s@.len() == N ==> (<&'a [u8] as vstd::std_specs::convert::TryIntoSpec<&'a [u8; N]>>::try_into_spec(s))->Ok_0@ == s@;
// the same conversions reached through `TryFrom::try_from` directly (vstd does not link its TryInto blanket spec to TryFrom)
pub broadcast axiom fn axiom_array_try_from_slice_obeys_tf<'a, const N: usize>()
    ensures #[trigger] <[u8; N] as vstd::std_specs::convert::TryFromSpec<&'a [u8]>>::obeys_try_from_spec();
pub broadcast axiom fn axiom_array_try_from_slice_tf<'a, const N: usize>(s: &'a [u8])
    ensures
        (#[trigger] <[u8; N] as vstd::std_specs::convert::TryFromSpec<&'a [u8]>>::try_from_spec(s)) is Ok <==> s@.len() == N,
        s@.len() == N ==> (<[u8; N] as vstd::std_specs::convert::TryFromSpec<&'a [u8]>>::try_from_spec(s))->Ok_0@ == s@;
pub broadcast axiom fn axiom_array_ref_try_from_slice_obeys_tf<'a, const N: usize>()
    ensures #[trigger] <&'a [u8; N] as vstd::std_specs::convert::TryFromSpec<&'a [u8]>>::obeys_try_from_spec();
pub broadcast axiom fn axiom_array_ref_try_from_slice_tf<'a, const N: usize>(s: &'a [u8])
    ensures
        (#[trigger] <&'a [u8; N] as vstd::std_specs::convert::TryFromSpec<&'a [u8]>>::try_from_spec(s)) is Ok <==> s@.len() == N,
        s@.len() == N ==> (<&'a [u8; N] as vstd::std_specs::convert::TryFromSpec<&'a [u8]>>::try_from_spec(s))->Ok_0@ == s@;
pub broadcast group group_array_conversions {
    axiom_array_try_from_slice, axiom_array_try_from_slice_obeys, axiom_array_ref_try_from_slice, axiom_array_ref_try_from_slice_obeys,
    axiom_array_try_from_slice_tf, axiom_array_try_from_slice_obeys_tf, axiom_array_ref_try_from_slice_tf, axiom_array_ref_try_from_slice_obeys_tf,
}
