// TRUSTED AXIOMS (core): `[u8; N] == [u8; N]` (and the `&`-level impl) compares element-wise.
// vstd leaves obeys_eq_spec open for arrays.
pub broadcast axiom fn array_u8_eq_spec<const N: usize>(a: [u8; N], b: [u8; N])
    ensures
        #[trigger] <[u8; N] as PartialEqSpec<[u8; N]>>::obeys_eq_spec(),
        #[trigger] PartialEqSpec::eq_spec(&a, &b) == (a@ == b@);
pub broadcast axiom fn array_ref_u8_eq_spec<'a, 'b, const N: usize>(a: &'a [u8; N], b: &'b [u8; N])
    ensures
        #[trigger] <&'a [u8; N] as PartialEqSpec<&'b [u8; N]>>::obeys_eq_spec(),
        #[trigger] PartialEqSpec::eq_spec(&a, &b) == (a@ == b@);
