// TRUSTED SHIM (byteorder): big-endian reads/writes as byte arithmetic; each real function panics
// when the slice is shorter than N, which is the `requires`.  Cross-checked against the real
// byteorder crate by the KX harnesses k_shim_* (complete, all inputs).
pub open spec fn be16(a: u8, b: u8) -> u16 { ((a as u16) * 256 + b as u16) as u16 }
pub open spec fn be32(a: u8, b: u8, c: u8, d: u8) -> u32 { (a as u32) << 24 | (b as u32) << 16 | (c as u32) << 8 | (d as u32) }
pub open spec fn be64_def(s: Seq<u8>) -> u64 { (be32(s[0], s[1], s[2], s[3]) as u64) << 32 | (be32(s[4], s[5], s[6], s[7]) as u64) }
pub open spec fn be128_def(s: Seq<u8>) -> u128 {
    (be32(s[0], s[1], s[2], s[3]) as u128) << 96 | (be32(s[4], s[5], s[6], s[7]) as u128) << 64
    | (be32(s[8], s[9], s[10], s[11]) as u128) << 32 | (be32(s[12], s[13], s[14], s[15]) as u128)
}
pub struct BigEndian;
impl BigEndian {
    #[verifier::external_body]
    pub fn read_u16(buf: &[u8]) -> (r: u16)
        requires buf@.len() >= 2,
        ensures r == be16(buf@[0], buf@[1]),
    { unimplemented!() }
    #[verifier::external_body]
    pub fn read_u32(buf: &[u8]) -> (r: u32)
        requires buf@.len() >= 4,
        ensures r == be32(buf@[0], buf@[1], buf@[2], buf@[3]),
    { unimplemented!() }
    #[verifier::external_body]
    pub fn read_u64(buf: &[u8]) -> (r: u64)
        requires buf@.len() >= 8,
        ensures r == be64_def(buf@.subrange(0, 8)),
    { unimplemented!() }
    #[verifier::external_body]
    pub fn read_u128(buf: &[u8]) -> (r: u128)
        requires buf@.len() >= 16,
        ensures r == be128_def(buf@.subrange(0, 16)),
    { unimplemented!() }
    // writes through a slice that is passed as such (`BigEndian::write_uN(dest, v)`, or `&mut x[a..b]` where rule R5 does not
    // apply): the first N/8 bytes big-endian, nothing else touched; the real call panics when the slice is shorter
    #[verifier::external_body]
    pub fn write_u16(buf: &mut [u8], n: u16)
        requires old(buf)@.len() >= 2,
        ensures final(buf)@ == seq![(n >> 8) as u8, (n & 0xff) as u8] + old(buf)@.subrange(2, old(buf)@.len() as int),
    { unimplemented!() }
    #[verifier::external_body]
    pub fn write_u32(buf: &mut [u8], n: u32)
        requires old(buf)@.len() >= 4,
        ensures final(buf)@ == seq![(n >> 24) as u8, ((n >> 16) & 0xff) as u8, ((n >> 8) & 0xff) as u8, (n & 0xff) as u8] + old(buf)@.subrange(4, old(buf)@.len() as int),
    { unimplemented!() }
}
// R5 target: `BigEndian::write_u16(&mut X[a..b], v)`; real call panics unless b - a >= 2 and b <= len
#[verifier::external_body]
pub fn be_write_u16_at(v: &mut Vec<u8>, a: usize, b: usize, n: u16)
    requires a + 2 <= b <= old(v)@.len(),
    ensures final(v)@ == old(v)@.update(a as int, (n >> 8) as u8).update(a as int + 1, (n & 0xff) as u8),
{ unimplemented!() }
