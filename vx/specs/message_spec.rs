// ================= SPECIFICATION of a well-formed STUN message, written from the text of C02 / C09 / C10
// (not from the code).  s = the buffer; o = an offset of a TLV.
pub const MI: u16 = 0x0008;      // MESSAGE-INTEGRITY        (RFC 8489 s14.5)
pub const MI256: u16 = 0x001c;   // MESSAGE-INTEGRITY-SHA256 (RFC 8489 s14.6)
pub const FP: u16 = 0x8028;      // FINGERPRINT              (RFC 8489 s14.7)
pub open spec fn padded(n: int) -> int { if n % 4 == 0 { n } else { n + 4 - n % 4 } }
pub open spec fn a_type(s: Seq<u8>, o: int) -> u16 { be16(s[o], s[o+1]) }
pub open spec fn a_len(s: Seq<u8>, o: int) -> int { be16(s[o+2], s[o+3]) as int }
pub open spec fn a_next(s: Seq<u8>, o: int) -> int { o + 4 + padded(a_len(s, o)) }
pub open spec fn is_ending(t: u16) -> bool { t == MI || t == MI256 || t == FP }
pub open spec fn is_integrity(t: u16) -> bool { t == MI || t == MI256 }
// the CRC of the Fingerprint crate function is uninterpreted (trusted to be CRC-32/ISO-HDLC, big-endian bytes)
pub uninterp spec fn spec_crc32(s: Seq<u8>) -> Seq<u8>;
pub open spec fn with_len(s: Seq<u8>, n: int) -> Seq<u8> { s.update(2, ((n as u16) >> 8) as u8).update(3, ((n as u16) & 0xff) as u8) }
pub open spec fn xor4(c: Seq<u8>) -> Seq<u8> { seq![c[0] ^ 0x53u8, c[1] ^ 0x54u8, c[2] ^ 0x55u8, c[3] ^ 0x4eu8] }
// C09: the FINGERPRINT value is crc32(message up to the attribute, length field covering the attribute) ^ 0x5354554e
pub open spec fn fp_ok(s: Seq<u8>, o: int) -> bool {
    a_len(s, o) == 4 && s.subrange(o + 4, o + 8) == xor4(spec_crc32(with_len(s.subrange(0, o), o + 8 - 20)))
}
pub proof fn xor_inv(x: Seq<u8>, y: Seq<u8>)
    requires x.len() == 4, y.len() == 4
    ensures (x == xor4(y)) == (y == xor4(x))
{
    assert(forall|a: u8, k: u8| #![auto] (a ^ k) ^ k == a) by (bit_vector);
    if x == xor4(y) { assert(y =~= xor4(x)); }
    if y == xor4(x) { assert(x =~= xor4(y)); }
}
// body tiled exactly by padded TLVs; only integrity/fingerprint after an integrity attribute; nothing after a
// FINGERPRINT; no repeated integrity or fingerprint attribute; a FINGERPRINT matches the bytes before it
pub open spec fn tail_ok(s: Seq<u8>, o: int, seen_mi: bool, seen_mi256: bool, seen_fp: bool) -> bool
    decreases s.len() - o
{
    if o >= s.len() { o == s.len() }
    else if o + 4 > s.len() { false }
    else if a_next(s, o) > s.len() { false }
    else {
        let t = a_type(s, o);
        &&& !seen_fp
        &&& ((seen_mi || seen_mi256) ==> is_ending(t))
        &&& (t == MI ==> !seen_mi)
        &&& (t == MI256 ==> !seen_mi256)
        &&& (t == FP ==> fp_ok(s, o))
        &&& tail_ok(s, a_next(s, o), seen_mi || t == MI, seen_mi256 || t == MI256, seen_fp || t == FP)
    }
}
// at least 20 bytes, zero top two bits, magic cookie
pub open spec fn hdr_ok(s: Seq<u8>) -> bool {
    s.len() >= 20 && s[0] & 0xc0 == 0 && s[4] == 0x21 && s[5] == 0x12 && s[6] == 0xa4 && s[7] == 0x42
}
pub open spec fn wf_message(s: Seq<u8>) -> bool {
    hdr_ok(s) && be16(s[2], s[3]) as int + 20 == s.len() && tail_ok(s, 20, false, false, false)
}

// ---- helper lemmas (arithmetic / bit-vector facts)
pub proof fn lemma_be16_top(a: u8, b: u8)
    ensures (be16(a, b) & 0xc000 == 0) == (a & 0xc0 == 0)
{
    let x = be16(a, b);
    assert(x == (a as u16) * 256 + b as u16);
    assert((((a as u16) * 256 + b as u16) as u16 & 0xc000 == 0) == (a & 0xc0 == 0)) by (bit_vector);
}
pub proof fn lemma_cookie(w0: u32, w1: u32, w2: u32, w3: u32)
    ensures ((((w0 as u128) << 96 | (w1 as u128) << 64 | (w2 as u128) << 32 | (w3 as u128)) >> 96) as u32) == w0
{
    assert(((((w0 as u128) << 96 | (w1 as u128) << 64 | (w2 as u128) << 32 | (w3 as u128)) >> 96) as u32) == w0) by (bit_vector);
}
pub proof fn lemma_be32_cookie(a: u8, b: u8, c: u8, d: u8)
    ensures (be32(a, b, c, d) == 0x2112A442u32) == (a == 0x21 && b == 0x12 && c == 0xa4 && d == 0x42)
{
    assert((((a as u32) << 24 | (b as u32) << 16 | (c as u32) << 8 | (d as u32)) == 0x2112A442u32) == (a == 0x21 && b == 0x12 && c == 0xa4 && d == 0x42)) by (bit_vector);
}
// ---- abstraction of the parser's `seen_ending_attributes` array
pub open spec fn has(a: Seq<AttributeType>, t: u16) -> bool { a.contains(AttributeType(t)) }
pub open spec fn cnt(a: Seq<AttributeType>) -> int {
    (if has(a, MI) { 1int } else { 0 }) + (if has(a, MI256) { 1int } else { 0 }) + (if has(a, FP) { 1int } else { 0 })
}
pub broadcast proof fn lemma_has_update(a: Seq<AttributeType>, k: int, t: AttributeType, x: u16)
    requires 0 <= k < a.len(), a[k] == AttributeType(0), x != 0
    ensures #[trigger] has(a.update(k, t), x) == (has(a, x) || t == AttributeType(x))
{
    let b = a.update(k, t);
    if has(a, x) {
        let i = choose|i: int| 0 <= i < a.len() && a[i] == AttributeType(x);
        assert(i != k);
        assert(b[i] == AttributeType(x));
    }
    if t == AttributeType(x) { assert(b[k] == AttributeType(x)); }
    if has(b, x) {
        let i = choose|i: int| 0 <= i < b.len() && b[i] == AttributeType(x);
        if i != k { assert(a[i] == AttributeType(x)); }
    }
}
