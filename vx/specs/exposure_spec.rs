// ================= C10: the exposed attribute stream =================
// state of the exposure rule: 0 = no integrity attribute yet, 1 = directly after a MESSAGE-INTEGRITY,
// 2 = after an integrity attribute (only FINGERPRINT is still exposed)
pub open spec fn exposed_from(s: Seq<u8>, o: int, st: int) -> Seq<int>
    decreases s.len() - o
{
    if o < 0 || o + 4 > s.len() || a_next(s, o) > s.len() { Seq::<int>::empty() }
    else {
        let t = a_type(s, o);
        if st == 0 { seq![o] + exposed_from(s, a_next(s, o), if t == MI { 1int } else if t == MI256 { 2int } else { 0int }) }
        else if st == 1 && t == MI256 { seq![o] + exposed_from(s, a_next(s, o), 2) }
        else if t == FP { seq![o] + exposed_from(s, a_next(s, o), 2) }
        else { exposed_from(s, a_next(s, o), 2) }
    }
}
pub open spec fn exposed(s: Seq<u8>) -> Seq<int> { exposed_from(s, 20, 0) }
// structural tiling from o to the end (part of wf_message)
pub open spec fn tiled(s: Seq<u8>, o: int) -> bool
    decreases s.len() - o
{
    if o >= s.len() { o == s.len() }
    else if o + 4 > s.len() { false }
    else if a_next(s, o) > s.len() { false }
    else { tiled(s, a_next(s, o)) }
}
pub proof fn lemma_tail_tiled(s: Seq<u8>, o: int, a: bool, b: bool, c: bool)
    requires tail_ok(s, o, a, b, c), o >= 0
    ensures tiled(s, o)
    decreases s.len() - o
{
    if o < s.len() && o + 4 <= s.len() && a_next(s, o) <= s.len() {
        let t = a_type(s, o);
        assert(padded(a_len(s, o)) >= 0);
        lemma_tail_tiled(s, a_next(s, o), a || t == MI, b || t == MI256, c || t == FP);
    }
}

