// ================= C10: the exposed attribute stream =================
// state of the exposure rule: 0 = no integrity attribute yet, 1 = directly after a MESSAGE-INTEGRITY,
// 2 = after an integrity attribute (only FINGERPRINT is still exposed)
pub open spec fn exposed_from(s: Seq<u8>, o: int, st: int) -> Seq<int>
    decreases s.len() - o
{
    if o < 0 || o + 4 > s.len() || a_next(s, o) > s.len() { Seq::<int>::empty() }
    else {
        let t = a_type(s, o);
        if st == 0 { seq![o] + exposed_from(s, a_next(s, o), if t == MI { 1int } else if t == MI256 { 2int } else { 0int }) }
        else if st == 1 && t == MI256 { seq![o] + exposed_from(s, a_next(s, o), 2) }
        else if t == FP { seq![o] + exposed_from(s, a_next(s, o), 2) }
        else { exposed_from(s, a_next(s, o), 2) }
    }
}
pub open spec fn exposed(s: Seq<u8>) -> Seq<int> { exposed_from(s, 20, 0) }
// structural tiling from o to the end (part of wf_message)
pub open spec fn tiled(s: Seq<u8>, o: int) -> bool
    decreases s.len() - o
{
    if o >= s.len() { o == s.len() }
    else if o + 4 > s.len() { false }
    else if a_next(s, o) > s.len() { false }
    else { tiled(s, a_next(s, o)) }
}
pub proof fn lemma_tail_tiled(s: Seq<u8>, o: int, a: bool, b: bool, c: bool)
    requires tail_ok(s, o, a, b, c), o >= 0
    ensures tiled(s, o)
    decreases s.len() - o
{
    if o < s.len() && o + 4 <= s.len() && a_next(s, o) <= s.len() {
        let t = a_type(s, o);
        assert(padded(a_len(s, o)) >= 0);
        lemma_tail_tiled(s, a_next(s, o), a || t == MI, b || t == MI256, c || t == FP);
    }
}


// ================= C10 corollaries (spec level) =================
// the exposed stream in state 0, cut after the first integrity attribute: every walk position up to and including it
pub open spec fn pre_exposed(s: Seq<u8>, o: int) -> Seq<int>
    decreases s.len() - o
{
    if o < 0 || o + 4 > s.len() || a_next(s, o) > s.len() { Seq::<int>::empty() }
    else if is_integrity(a_type(s, o)) { seq![o] }
    else { seq![o] + pre_exposed(s, a_next(s, o)) }
}
// offset just past the first integrity attribute (or the end of the walk when there is none)
pub open spec fn pre_end(s: Seq<u8>, o: int) -> int
    decreases s.len() - o
{
    if o < 0 || o + 4 > s.len() || a_next(s, o) > s.len() { o }
    else if is_integrity(a_type(s, o)) { a_next(s, o) }
    else { pre_end(s, a_next(s, o)) }
}
pub proof fn lemma_a_next_gt(s: Seq<u8>, o: int)
    ensures a_next(s, o) >= o + 4
{ assert(padded(a_len(s, o)) >= 0); }

// [C10.tail-types] once an integrity attribute has been passed, only MESSAGE-INTEGRITY-SHA256 (directly after
// MESSAGE-INTEGRITY) and FINGERPRINT are exposed
pub proof fn lemma_exposed_after_integrity(s: Seq<u8>, o: int, st: int, k: int)
    requires st == 1 || st == 2, 0 <= k < exposed_from(s, o, st).len()
    ensures ({ let x = exposed_from(s, o, st)[k]; x >= o && (a_type(s, x) == FP || (a_type(s, x) == MI256 && st == 1 && x == o)) })
    decreases s.len() - o
{
    lemma_a_next_gt(s, o);
    if !(o < 0 || o + 4 > s.len() || a_next(s, o) > s.len()) {
        let t = a_type(s, o);
        let rest = exposed_from(s, a_next(s, o), 2);
        if (st == 1 && t == MI256) || t == FP {
            assert(exposed_from(s, o, st) =~= seq![o] + rest);
            if k > 0 { lemma_exposed_after_integrity(s, a_next(s, o), 2, k - 1); assert(exposed_from(s, o, st)[k] == rest[k - 1]); }
        } else {
            lemma_exposed_after_integrity(s, a_next(s, o), 2, k);
        }
    }
}
// [C10.split] the exposed stream is the prefix up to and including the first integrity attribute, followed only by
// attributes of type MESSAGE-INTEGRITY-SHA256 / FINGERPRINT located after it.  Hence every exposed attribute of any
// other type lies before the end of the first integrity attribute, i.e. inside the bytes the HMAC covers.
pub proof fn lemma_exposed_split(s: Seq<u8>, o: int, k: int)
    requires 0 <= k < exposed_from(s, o, 0).len()
    ensures ({ let x = exposed_from(s, o, 0)[k]; let p = pre_exposed(s, o);
        (k < p.len() && x == p[k] && x < pre_end(s, o)) || (k >= p.len() && x >= pre_end(s, o) && (a_type(s, x) == FP || a_type(s, x) == MI256)) }),
        pre_exposed(s, o).len() <= exposed_from(s, o, 0).len(),
    decreases s.len() - o
{
    lemma_a_next_gt(s, o);
    if !(o < 0 || o + 4 > s.len() || a_next(s, o) > s.len()) {
        let t = a_type(s, o);
        let nx = a_next(s, o);
        if t == MI || t == MI256 {
            let st2 = if t == MI { 1int } else { 2int };
            assert(exposed_from(s, o, 0) =~= seq![o] + exposed_from(s, nx, st2));
            assert(pre_exposed(s, o) =~= seq![o]);
            if k > 0 { lemma_exposed_after_integrity(s, nx, st2, k - 1); assert(exposed_from(s, o, 0)[k] == exposed_from(s, nx, st2)[k - 1]); }
        } else {
            assert(exposed_from(s, o, 0) =~= seq![o] + exposed_from(s, nx, 0));
            assert(pre_exposed(s, o) =~= seq![o] + pre_exposed(s, nx));
            lemma_pre_end_ge(s, nx);
            if k > 0 {
                lemma_exposed_split(s, nx, k - 1);
                assert(exposed_from(s, o, 0)[k] == exposed_from(s, nx, 0)[k - 1]);
                if k - 1 < pre_exposed(s, nx).len() { assert(pre_exposed(s, o)[k] == pre_exposed(s, nx)[k - 1]); }
            } else {
                assert(exposed_from(s, nx, 0).len() >= 0);
            }
            if exposed_from(s, nx, 0).len() > 0 { lemma_exposed_split(s, nx, 0); } else { assert(pre_exposed(s, nx).len() == 0) by { lemma_pre_le(s, nx); } }
        }
    }
}
pub proof fn lemma_pre_le(s: Seq<u8>, o: int)
    ensures pre_exposed(s, o).len() <= exposed_from(s, o, 0).len()
    decreases s.len() - o
{
    lemma_a_next_gt(s, o);
    if !(o < 0 || o + 4 > s.len() || a_next(s, o) > s.len()) {
        let t = a_type(s, o);
        if !(t == MI || t == MI256) { lemma_pre_le(s, a_next(s, o)); }
    }
}
pub proof fn lemma_pre_end_ge(s: Seq<u8>, o: int)
    ensures pre_end(s, o) >= o
    decreases s.len() - o
{
    lemma_a_next_gt(s, o);
    if !(o < 0 || o + 4 > s.len() || a_next(s, o) > s.len()) {
        if !is_integrity(a_type(s, o)) { lemma_pre_end_ge(s, a_next(s, o)); }
    }
}
// [C10.prefix-stable] replacing the bytes after the first integrity attribute never changes the exposed attributes
// before it: if two buffers agree up to the end e of the first integrity attribute of the first one, they have the same
// pre-integrity exposed stream (same offsets, hence same types and value bytes)
pub proof fn lemma_prefix_stable(s1: Seq<u8>, s2: Seq<u8>, o: int)
    requires
        0 <= o <= s1.len(), pre_end(s1, o) <= s2.len(), s1.subrange(0, pre_end(s1, o)) =~= s2.subrange(0, pre_end(s1, o)),
        pre_exposed(s1, o).len() > 0, is_integrity(a_type(s1, pre_exposed(s1, o).last())),
    ensures pre_exposed(s2, o) == pre_exposed(s1, o), pre_end(s2, o) == pre_end(s1, o)
    decreases s1.len() - o
{
    lemma_a_next_gt(s1, o);
    lemma_pre_end_ge(s1, o);
    lemma_pre_end_le(s1, o);
    let e = pre_end(s1, o);
    if !(o < 0 || o + 4 > s1.len() || a_next(s1, o) > s1.len()) {
        let nx = a_next(s1, o);
        lemma_pre_end_ge(s1, nx);
        // the TLV header at o lies below e in both buffers
        assert(e >= nx) by { if !is_integrity(a_type(s1, o)) { lemma_pre_end_ge(s1, nx); } }
        assert(s1[o] == s1.subrange(0, e)[o] && s1[o + 1] == s1.subrange(0, e)[o + 1] && s1[o + 2] == s1.subrange(0, e)[o + 2] && s1[o + 3] == s1.subrange(0, e)[o + 3]);
        assert(s2[o] == s2.subrange(0, e)[o] && s2[o + 1] == s2.subrange(0, e)[o + 1] && s2[o + 2] == s2.subrange(0, e)[o + 2] && s2[o + 3] == s2.subrange(0, e)[o + 3]);
        assert(a_type(s2, o) == a_type(s1, o) && a_next(s2, o) == nx);
        if !is_integrity(a_type(s1, o)) {
            assert(pre_exposed(s1, o) =~= seq![o] + pre_exposed(s1, nx));
            assert(pre_exposed(s1, nx).len() > 0) by { if pre_exposed(s1, nx).len() == 0 { assert(pre_exposed(s1, o).last() == o); } }
            assert(pre_exposed(s1, o).last() == pre_exposed(s1, nx).last());
            lemma_prefix_stable(s1, s2, nx);
        }
    }
}
pub proof fn lemma_pre_end_le(s: Seq<u8>, o: int)
    requires o <= s.len()
    ensures pre_end(s, o) <= s.len()
    decreases s.len() - o
{
    lemma_a_next_gt(s, o);
    if !(o < 0 || o + 4 > s.len() || a_next(s, o) > s.len()) {
        if !is_integrity(a_type(s, o)) { lemma_pre_end_le(s, a_next(s, o)); }
    }
}
