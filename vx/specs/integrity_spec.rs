// ================= SPECIFICATION for integrity validation (C04), written from RFC 8489 s14.5/14.6 and the statement
pub uninterp spec fn spec_hmac_sha1(key: Seq<u8>, data: Seq<u8>) -> Seq<u8>;     // 20 bytes (trusted: hmac + sha1 crates)
pub uninterp spec fn spec_hmac_sha256(key: Seq<u8>, data: Seq<u8>) -> Seq<u8>;   // 32 bytes (trusted: hmac + sha2 crates)
pub broadcast axiom fn axiom_hmac_lens(key: Seq<u8>, data: Seq<u8>)
    ensures #[trigger] spec_hmac_sha1(key, data).len() == 20, #[trigger] spec_hmac_sha256(key, data).len() == 32;
// HMAC input: the message up to the integrity attribute with the length field set to the end of that attribute
pub open spec fn hmac_input(s: Seq<u8>, o: int, alen: int) -> Seq<u8> { with_len(s.subrange(0, o), o + 4 + alen - 20) }
pub open spec fn mi_correct(s: Seq<u8>, o: int, key: Seq<u8>) -> bool {
    a_len(s, o) == 20 && s.subrange(o + 4, o + 24) == spec_hmac_sha1(key, hmac_input(s, o, 20))
}
pub open spec fn mi256_len_ok(n: int) -> bool { 16 <= n <= 32 && n % 4 == 0 }
pub open spec fn mi256_correct(s: Seq<u8>, o: int, key: Seq<u8>) -> bool {
    let n = a_len(s, o);
    mi256_len_ok(n) && s.subrange(o + 4, o + 4 + n) == spec_hmac_sha256(key, hmac_input(s, o, n)).subrange(0, n)
}

