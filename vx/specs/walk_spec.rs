// ---- TLV walk positions
pub open spec fn is_tlv(s: Seq<u8>, x: int) -> bool { 0 <= x && x + 4 <= s.len() && a_next(s, x) <= s.len() }
pub open spec fn reach(s: Seq<u8>, from: int, x: int) -> bool
    decreases s.len() - from
{
    is_tlv(s, from) && (x == from || (from < x && reach(s, a_next(s, from), x)))
}
// first exposed TLV of type t, searching the exposed stream from (o, st)
pub open spec fn first_exposed(s: Seq<u8>, o: int, st: int, t: u16) -> Option<int>
    decreases s.len() - o
{
    if !is_tlv(s, o) { None }
    else {
        let ty = a_type(s, o);
        let shown = st == 0 || (st == 1 && ty == MI256) || ty == FP;
        let st2 = if st == 0 { if ty == MI { 1int } else if ty == MI256 { 2int } else { 0int } } else { 2int };
        if shown && ty == t { Some(o) } else { first_exposed(s, a_next(s, o), st2, t) }
    }
}
pub proof fn lemma_next_gt(s: Seq<u8>, o: int)
    ensures a_next(s, o) >= o + 4
{
    assert(padded(a_len(s, o)) >= 0);
}
// an exposed attribute is a walk position of that type
pub proof fn lemma_first_exposed_reach(s: Seq<u8>, o: int, st: int, t: u16)
    requires first_exposed(s, o, st, t) is Some
    ensures reach(s, o, first_exposed(s, o, st, t)->Some_0), a_type(s, first_exposed(s, o, st, t)->Some_0) == t, first_exposed(s, o, st, t)->Some_0 >= o
    decreases s.len() - o
{
    let ty = a_type(s, o);
    let shown = st == 0 || (st == 1 && ty == MI256) || ty == FP;
    let st2 = if st == 0 { if ty == MI { 1int } else if ty == MI256 { 2int } else { 0int } } else { 2int };
    lemma_next_gt(s, o);
    if !(shown && ty == t) {
        lemma_first_exposed_reach(s, a_next(s, o), st2, t);
    }
}
// in a well-formed tail, once MI (resp. MI-SHA256) has been seen no later walk position has that type
pub proof fn lemma_no_repeat(s: Seq<u8>, o: int, mi: bool, mi256: bool, fp: bool, x: int)
    requires tail_ok(s, o, mi, mi256, fp), reach(s, o, x), o >= 0
    ensures mi ==> a_type(s, x) != MI, mi256 ==> a_type(s, x) != MI256
    decreases s.len() - o
{
    let t = a_type(s, o);
    lemma_next_gt(s, o);
    if x != o {
        lemma_no_repeat(s, a_next(s, o), mi || t == MI, mi256 || t == MI256, fp || t == FP, x);
    }
}
// two walk positions of type MI (or MI-SHA256) in a well-formed tail coincide
pub proof fn lemma_unique(s: Seq<u8>, o: int, mi: bool, mi256: bool, fp: bool, x: int, y: int, t: u16)
    requires tail_ok(s, o, mi, mi256, fp), reach(s, o, x), reach(s, o, y), o >= 0, a_type(s, x) == t, a_type(s, y) == t, t == MI || t == MI256
    ensures x == y
    decreases s.len() - o
{
    let ty = a_type(s, o);
    lemma_next_gt(s, o);
    let (m2, s2, f2) = (mi || ty == MI, mi256 || ty == MI256, fp || ty == FP);
    if x == o && y != o { lemma_no_repeat(s, a_next(s, o), m2, s2, f2, y); }
    else if y == o && x != o { lemma_no_repeat(s, a_next(s, o), m2, s2, f2, x); }
    else if x != o && y != o { lemma_unique(s, a_next(s, o), m2, s2, f2, x, y, t); }
}
// walk positions are ordered: nothing lies strictly between a position and its successor
pub proof fn lemma_reach_step(s: Seq<u8>, from: int, p: int, x: int)
    requires reach(s, from, p), reach(s, from, x), p < x
    ensures reach(s, a_next(s, p), x)
    decreases s.len() - from
{
    lemma_next_gt(s, from);
    if p != from { lemma_reach_step(s, a_next(s, from), p, x); }
}
pub proof fn lemma_reach_tlv(s: Seq<u8>, from: int, x: int)
    requires reach(s, from, x)
    ensures is_tlv(s, x), x >= from
    decreases s.len() - from
{
    lemma_next_gt(s, from);
    if x != from { lemma_reach_tlv(s, a_next(s, from), x); }
}
