#!/bin/bash
# tools/matrix.sh <patchdir-glob-list>: runs every seeded patch against the check of the property it breaks.
# Output: one line per (patch, property): rc and the engines that fired.
out=${OUT:-/verif/build/matrix.txt}
: > $out
for d in "$@"; do
  id=$(basename $d)
  P=$(python3 -c "import json;print(json.load(open('$d/meta.json'))['breaks_property'])")
  extra=$(python3 -c "import json;print(' '.join(json.load(open('$d/meta.json')).get('also_check',[])))")
  for prop in $P $extra; do
    res=$(tools/trymut.sh $d/patch.diff $prop 2>&1)
    rc=$(echo "$res" | grep -o "rc=[0-9]*" | head -1)
    eng=$(echo "$res" | grep -o "failed: \[[a-z]*\]" | sort | uniq -c | tr '\n' ' ')
    und=$(echo "$res" | grep "UNDECIDED" | head -2 | cut -c1-160 | tr '\n' ' ')
    wit=$(echo "$res" | grep -c "no-failing-input-found")
    echo "$id -> $prop $rc witness=$((1-wit)) $eng $und" | tee -a $out
  done
done
