#!/bin/bash
# tools/preserving.sh : behaviour-CHANGING but property-PRESERVING edits (benign/P*-*) against every check of their cluster;
# a check may answer 0 or 2 on these, never 1 (an alarm here means an oracle or contract demands more than the property states)
declare -A AREA=( [P1]="C01 C02 C09 C10 C17" [P2]="C03 C11 C12 C16 C04" [P3]="C08 C13 C19 C12" [P4]="C05 C06 C07 C14 C15 C18 C20" )
bad=0
for d in benign/P*-[1234]; do
  b=$(basename $d | cut -d- -f1)
  for p in ${AREA[$b]}; do
    res=$(tools/trymut.sh $d/patch.diff $p 2>&1)
    r=$(echo "$res" | grep -o "rc=[0-9]*" | head -1)
    echo "$(basename $d) $p $r $(echo "$res" | grep -E "failed:|UNDECIDED" | head -2 | cut -c1-220 | tr '\n' '|')"
    [ "$r" = "rc=1" ] && bad=1
  done
done
exit $bad
