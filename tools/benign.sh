#!/bin/bash
# tools/benign.sh : every behaviour-preserving refactoring in benign/ against the checks of its area; reports rc (must never be 1)
declare -A AREA=( [B1]="C01 C02 C17" [B2]="C10 C04 C01" [B3]="C05 C07 C15 C18" [B4]="C14 C06 C05" [B5]="C03 C11 C12 C16" [B6]="C08 C12 C13 C01" [B7]="C03 C11 C12 C09 C04 C19" [B8]="C12 C08 C03" )
bad=0
for d in benign/B*-[123]; do
  b=$(basename $d | cut -d- -f1)
  for p in ${AREA[$b]}; do
    r=$(tools/trymut.sh $d/patch.diff $p 2>&1 | grep -o "rc=[0-9]*" | head -1)
    echo "$(basename $d) $p $r"
    [ "$r" = "rc=1" ] && bad=1
  done
done
exit $bad
