#!/bin/bash
# tools/confirm_one.sh <id> <Cxx> <change.diff> <demo.rs> <notes.md>
# Confirms one candidate mutation in a scratch worktree: (1) the unedited suite passes with the change, (2) the demo fails with
# the change, (3) the demo passes without it.  On success writes /verif/seeded/<id>/{patch.diff,demo.rs,meta.json}.
set -u
id=$1; PROP=$2; diff=$(realpath $3); demo=$(realpath $4); notes=$(realpath $5)
W=/var/tmp/confirm-$$
git -C /repo worktree add -q --detach $W HEAD || exit 1
trap 'git -C /repo worktree remove --force '$W'; rm -rf '$W EXIT
export CARGO_TARGET_DIR=$W/target CARGO_NET_OFFLINE=true
crate=stun-types; grep -q "stun_proto" $demo && crate=stun-proto
cd $W
if ! git apply --check $diff 2>/dev/null; then echo "$id: PATCH DOES NOT APPLY"; exit 1; fi
git apply $diff
suite=$(cargo test --workspace --offline 2>&1 | grep -E "^test result" | awk '{p+=$4; f+=$6} END {print p" passed "f" failed"}')
mkdir -p $crate/tests && cp $demo $crate/tests/demo_x.rs
with=$(cargo test --offline -p $crate --test demo_x 2>&1 | grep -E "^test result" | awk '{print $4" passed "$6" failed"}')
git checkout -q -- .
without=$(cargo test --offline -p $crate --test demo_x 2>&1 | grep -E "^test result" | awk '{print $4" passed "$6" failed"}')
rm -f $crate/tests/demo_x.rs
echo "$id: suite[$suite] demo-with[$with] demo-without[$without]"
ok=0
case "$suite" in *" 0 failed") case "$with" in *" 0 failed"|"") ;; *) case "$without" in *" 0 failed") ok=1;; esac;; esac;; esac
if [ $ok = 1 ]; then
  mkdir -p /verif/seeded/$id
  cp $diff /verif/seeded/$id/patch.diff
  cp $demo /verif/seeded/$id/demo.rs
  python3 - "$id" "$PROP" "$crate" "$suite" "$with" "$without" "$notes" <<'PY'
import json,sys,os
id,P,crate,suite,w,wo,notes=sys.argv[1:8]
json.dump({'id':id,'breaks_property':P,'origin':os.environ.get('ORIGIN','independent sub-agent given only the property record and a scratch worktree'),
 'demo':{'file':'demo.rs','crate':crate,'how':f'copy to {crate}/tests/demo_x.rs and run cargo test --offline -p {crate} --test demo_x'},
 'confirmed_by_me':{'existing_suite_with_change':suite,'demo_with_change':w,'demo_without_change':wo,'where':'scratch worktree of /repo HEAD under /var/tmp (removed afterwards)'},
 'needs_to_manifest_and_clause': open(notes).read()[:6000]}, open(f'/verif/seeded/{id}/meta.json','w'), indent=1)
PY
else
  echo "$id: NOT CONFIRMED"
fi
