#!/bin/bash
# Confirms each candidate mutation in its own scratch worktree: (1) existing suite passes with the change,
# (2) demo fails with the change, (3) demo passes without.  Writes /verif/seeded/<id>/{patch.diff,demo.rs,meta.json}.
# usage: tools/confirm_seeds.sh <Cxx> <n> ...   (candidates in /tmp/wt/<Cxx>/out/change<n>.diff)
set -u
W=/tmp/wt/confirm-$$
git -C /repo worktree add -q --detach $W HEAD || exit 1
trap 'git -C /repo worktree remove --force '$W'; rm -rf '$W EXIT
export CARGO_TARGET_DIR=$W/target
while [ $# -ge 2 ]; do
  P=$1; N=$2; shift 2
  src=/tmp/wt/$P/out
  PROP=${P#r2-}; if [ "$PROP" != "$P" ]; then id=${PROP}-r2agent$N; else id=${P}-agent$N; fi
  demo=$src/demo_$N.rs
  crate=$(head -1 $demo | grep -o "stun-[a-z]*" | head -1)
  [ -z "$crate" ] && crate=$(ls /tmp/wt/$P/stun-types/tests/demo_$N.rs >/dev/null 2>&1 && echo stun-types || echo stun-proto)
  cd $W && git checkout -q -- . && git clean -qfd -e target
  if ! git apply --check $src/change$N.diff 2>/dev/null; then echo "$id: PATCH DOES NOT APPLY"; continue; fi
  git apply $src/change$N.diff
  suite=$(cargo test --workspace --offline 2>&1 | grep -E "^test result" | awk '{p+=$4; f+=$6} END {print p" passed "f" failed"}')
  mkdir -p $crate/tests && cp $demo $crate/tests/demo_$N.rs
  with=$(cargo test --offline -p $crate --test demo_$N 2>&1 | grep -E "^test result" | awk '{print $4" passed "$6" failed"}')
  git checkout -q -- . 
  without=$(cargo test --offline -p $crate --test demo_$N 2>&1 | grep -E "^test result" | awk '{print $4" passed "$6" failed"}')
  rm -f $crate/tests/demo_$N.rs
  echo "$id: suite[$suite] demo-with[$with] demo-without[$without]"
  ok=0
  case "$suite" in *" 0 failed") case "$with" in *" 0 failed"|"") ;; *) case "$without" in *" 0 failed") ok=1;; esac;; esac;; esac
  if [ $ok = 1 ]; then
    mkdir -p /verif/seeded/$id
    cp $src/change$N.diff /verif/seeded/$id/patch.diff
    cp $demo /verif/seeded/$id/demo.rs
    python3 - "$id" "$PROP" "$N" "$crate" "$suite" "$with" "$without" <<'PY'
import json,sys,re
id,P,N,crate,suite,w,wo=sys.argv[1:8]
import glob
notes=open(glob.glob(f'/tmp/wt/*{P}/out/notes.md')[0]).read() if not id.count('r2') else open(f'/tmp/wt/r2-{P}/out/notes.md').read()
json.dump({'id':id,'breaks_property':P,'origin':'independent sub-agent given only the property record and a scratch worktree',
 'demo':{'file':'demo.rs','crate':crate,'how':f'copy to {crate}/tests/demo_{N}.rs and run cargo test --offline -p {crate} --test demo_{N}'},
 'confirmed_by_me':{'existing_suite_with_change':suite,'demo_with_change':w,'demo_without_change':wo,'where':'scratch worktree of /repo HEAD under /tmp/wt (removed afterwards)'},
 'needs_to_manifest_and_clause': notes[:6000]}, open(f'/verif/seeded/{id}/meta.json','w'), indent=1)
PY
  else
    echo "$id: NOT CONFIRMED"
  fi
done
