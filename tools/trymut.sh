#!/bin/bash
# tools/trymut.sh <patch.diff> <Cxx> [<Cxx>...]  : apply patch to /repo, run quick checks, ALWAYS revert.
# The evidence files are saved before and restored afterwards: what is committed under evidence/ must come from the unchanged tree.
p=$(realpath "$1"); shift
cd /repo || exit 9
if ! git diff --quiet; then echo "/repo dirty, refusing"; exit 9; fi
if ! git apply --check "$p" 2>/dev/null; then echo "PATCH DOES NOT APPLY: $p"; exit 8; fi
bak=$(mktemp -d /var/tmp/evidence-bak-XXXXXX)
cp -a /verif/evidence/. "$bak"/
git apply "$p"
trap 'git -C /repo checkout -- . ; rm -rf /verif/evidence; mkdir -p /verif/evidence; cp -a '"$bak"'/. /verif/evidence/; rm -rf '"$bak" EXIT
for id in "$@"; do
  out=$(/verif/check $id ${TIER:+--tier $TIER} 2>&1); rc=$?
  echo "== $id rc=$rc"; echo "$out" | grep -E "VIOLATION|UNDECIDED|KNOWN|failed:|HELD|VIOLATED" | cut -c1-400
done
