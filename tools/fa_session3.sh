#!/bin/bash
# tools/fa_session3.sh : reduced false-alarm regression of the third session - the benign (B*) and property-preserving (P*) edits that touch
# the functions brought under contract in that session, against the affected checks (must never answer rc=1).  TIER=quick tools/fa_session3.sh
cd "$(dirname "$0")/.."
run() { d=$1; shift; for p in "$@"; do res=$(tools/trymut.sh benign/$d/patch.diff $p 2>&1); r=$(echo "$res" | grep -o "rc=[0-9]*" | head -1); echo "$d $p $r $(echo "$res" | grep -E "failed:|UNDECIDED" | head -2 | cut -c1-200 | tr '\n' '|')"; done; }
for n in 1 2 3 4; do run P1-$n C02 C10; done
for n in 1 2 3 4; do run P2-$n C11 C16 C03; done
for n in 1 2 3 4; do run P4-$n C06; done
for n in 1 2 3; do run B1-$n C02; run B2-$n C10; run B5-$n C11 C16; run B7-$n C11 C03; done
for n in 1 2 3 4; do run P4-$n C05 C18 C15 C20; done
for n in 1 2 3; do run B3-$n C05 C18 C15; run B4-$n C06 C05; run B6-$n C08; done
for n in 1 2 3 4; do run P3-$n C08; done
echo FINISHED
