// @append-to: stun-types/src/attribute/user.rs
#[cfg(kani)]
mod verif_kani_user {
    use super::*;
    use crate::attribute::kx_util::*;

    #[kani::proof]
    #[kani::unwind(50)]
    fn k08_userhash() {
        let buf: [u8; 40] = kani::any();
        let (t, n, raw) = any_raw(&buf);
        match Userhash::try_from(&raw) {
            Ok(v) => {
                assert!(t == 0x001E && n == 32);
                let h = v.hash();
                let mut i = 0;
                while i < 32 { assert!(h[i] == buf[i]); i += 1; }
                check_writers(&v, 0x001E, &buf[..32]);
                assert!(Userhash::new(*h) == v);
            }
            Err(e) => {
                assert!(!(t == 0x001E && n == 32));
                if t != 0x001E { assert!(matches!(e, StunParseError::WrongAttributeImplementation)); } else { assert!(len_err_ok(&e, n, 32, 32)); }
            }
        }
    }
}
