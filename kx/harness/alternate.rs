// @append-to: stun-types/src/attribute/alternate.rs
#[cfg(kani)]
mod verif_kani_alternate {
    use super::*;
    use crate::attribute::kx_util::*;
    use std::net::{IpAddr, Ipv4Addr, Ipv6Addr};

    #[kani::proof]
    #[kani::unwind(50)]
    fn k08_alternate_server_decode() {
        let buf: [u8; 40] = kani::any();
        let (t, n, raw) = any_raw(&buf);
        let valid = (buf[1] == 1 && n == 8) || (buf[1] == 2 && n == 20);
        match AlternateServer::try_from(&raw) {
            Ok(v) => {
                assert!(t == 0x8023 && valid);
                let a = v.server();
                assert!(a.port() == ((buf[2] as u16) << 8 | buf[3] as u16));
                match a.ip() {
                    IpAddr::V4(ip) => { let o = ip.octets(); assert!(n == 8 && o[0] == buf[4] && o[1] == buf[5] && o[2] == buf[6] && o[3] == buf[7]); }
                    IpAddr::V6(ip) => { let o = ip.octets(); let mut i = 0; while i < 16 { assert!(o[i] == buf[4 + i]); i += 1; } assert!(n == 20); }
                }
                let mut val = [0u8; 20];
                let mut i = 1;
                while i < 20 { if i < n { val[i] = buf[i]; } i += 1; }
                check_writers(&v, 0x8023, &val[..n]);
            }
            Err(e) => {
                assert!(!(t == 0x8023 && valid));
                if t != 0x8023 { assert!(matches!(e, StunParseError::WrongAttributeImplementation)); }
            }
        }
    }

    #[kani::proof]
    #[kani::unwind(50)]
    fn k08_alternate_server_new() {
        let ip4: [u8; 4] = kani::any();
        let ip6: [u8; 16] = kani::any();
        let port: u16 = kani::any();
        let v6: bool = kani::any();
        let a = if v6 { SocketAddr::new(IpAddr::V6(Ipv6Addr::from(ip6)), port) } else { SocketAddr::new(IpAddr::V4(Ipv4Addr::from(ip4)), port) };
        let v = AlternateServer::new(a);
        assert!(v.server() == a);
        match AlternateServer::try_from(&v.to_raw()) {
            Ok(w) => assert!(w == v && w.server() == a),
            Err(_) => assert!(false),
        }
    }
}
