// @append-to: stun-types/src/attribute/error.rs
#[cfg(kani)]
mod verif_kani_error {
    use super::*;

    // C08: ERROR-CODE class/number arithmetic on all 65536 (class byte, number byte) pairs, empty reason phrase:
    // accepted <=> class in 3..=6 and number <= 99; code = class*100 + number; re-encoding is class, number
    #[kani::proof]
    #[kani::unwind(12)]
    fn k08_error_code_pairs() {
        let c: u8 = kani::any();
        let num: u8 = kani::any();
        let r0: u8 = kani::any();
        let r1: u8 = kani::any();
        let val = [r0, r1, c, num];
        let t: u16 = kani::any();
        let raw = RawAttribute::new(AttributeType::new(t), &val);
        let class = c & 0x7;
        let valid = class >= 3 && class <= 6 && num <= 99;
        match ErrorCode::try_from(&raw) {
            Ok(v) => {
                assert!(t == 0x0009 && valid);
                assert!(v.code() == class as u16 * 100 + num as u16);
                assert!(v.reason().len() == 0);
                assert!(v.length() == 4);
                let mut dest = [0xAAu8; 12];
                assert!(matches!(v.write_into(&mut dest), Ok(8)));
                assert!(dest[0] == 0 && dest[1] == 9 && dest[2] == 0 && dest[3] == 4);
                assert!(dest[4] == 0 && dest[5] == 0 && dest[6] == class && dest[7] == num);
                assert!(dest[8] == 0xAA);
            }
            Err(e) => {
                assert!(!(t == 0x0009 && valid));
                if t != 0x0009 { assert!(matches!(e, StunParseError::WrongAttributeImplementation)); } else { assert!(matches!(e, StunParseError::InvalidAttributeData)); }
            }
        }
    }

    // C08: ErrorCode::new accepts exactly codes 300..=699 (all 65536 codes)
    #[kani::proof]
    #[kani::unwind(12)]
    fn k08_error_code_new() {
        let code: u16 = kani::any();
        match ErrorCode::new(code, "") {
            Ok(v) => { assert!(code >= 300 && code <= 699 && v.code() == code); }
            Err(StunWriteError::OutOfRange { value, min, max }) => { assert!((code < 300 || code > 699) && value == code as usize && min == 300 && max == 699); }
            Err(_) => assert!(false),
        }
    }
}
