// @append-to: stun-types/src/attribute/error.rs
#[cfg(kani)]
mod verif_kani_error {
    use super::*;

    // C08: ERROR-CODE class/number arithmetic on all 65536 (class byte, number byte) pairs, empty reason phrase:
    // accepted <=> class in 3..=6 and number <= 99; code = class*100 + number; re-encoding is class, number
    #[kani::proof]
    #[kani::unwind(12)]
    fn k08_error_code_pairs() {
        let c: u8 = kani::any();
        let num: u8 = kani::any();
        let r0: u8 = kani::any();
        let r1: u8 = kani::any();
        let val = [r0, r1, c, num];
        let t: u16 = kani::any();
        let raw = RawAttribute::new(AttributeType::new(t), &val);
        let class = c & 0x7;
        let valid = class >= 3 && class <= 6 && num <= 99;
        match ErrorCode::try_from(&raw) {
            Ok(v) => {
                assert!(t == 0x0009 && valid);
                assert!(v.code() == class as u16 * 100 + num as u16);
                assert!(v.reason().len() == 0);
                assert!(v.length() == 4);
                let mut dest = [0xAAu8; 12];
                assert!(matches!(v.write_into(&mut dest), Ok(8)));
                assert!(dest[0] == 0 && dest[1] == 9 && dest[2] == 0 && dest[3] == 4);
                assert!(dest[4] == 0 && dest[5] == 0 && dest[6] == class && dest[7] == num);
                assert!(dest[8] == 0xAA);
            }
            Err(e) => {
                assert!(!(t == 0x0009 && valid));
                if t != 0x0009 { assert!(matches!(e, StunParseError::WrongAttributeImplementation)); } else { assert!(matches!(e, StunParseError::InvalidAttributeData)); }
            }
        }
    }

    // C08: ErrorCode::new accepts exactly codes 300..=699 (all 65536 codes)
    #[kani::proof]
    #[kani::unwind(12)]
    fn k08_error_code_new() {
        let code: u16 = kani::any();
        match ErrorCode::new(code, "") {
            Ok(v) => { assert!(code >= 300 && code <= 699 && v.code() == code); }
            Err(StunWriteError::OutOfRange { value, min, max }) => { assert!((code < 300 || code > 699) && value == code as usize && min == 300 && max == 699); }
            Err(_) => assert!(false),
        }
    }

    // C08 (bounded): UNKNOWN-ATTRIBUTES decoder on values of 0..=8 bytes: accepted <=> type 0x000A and an even length; the
    // list is the big-endian 16-bit values in order; an odd length is reported as truncated by one byte
    #[kani::proof]
    #[kani::unwind(6)]
    fn k08_unknown_attributes_small() {
        let buf: [u8; 8] = kani::any();
        let n: usize = kani::any();
        kani::assume(n <= 8);
        let t: u16 = kani::any();
        let raw = RawAttribute::new(AttributeType::new(t), &buf[..n]);
        match UnknownAttributes::try_from(&raw) {
            Ok(v) => {
                assert!(t == 0x000A && n % 2 == 0);
                assert!(v.length() as usize == n);
                let mut i = 0;
                while i < 4 { if 2 * i < n { assert!(v.has_attribute(AttributeType::new((buf[2 * i] as u16) << 8 | buf[2 * i + 1] as u16))); } i += 1; }
            }
            Err(StunParseError::WrongAttributeImplementation) => assert!(t != 0x000A),
            Err(StunParseError::Truncated { expected, actual }) => assert!(t == 0x000A && n % 2 == 1 && actual == n && expected == n + 1),
            Err(_) => assert!(false),
        }
    }
}
