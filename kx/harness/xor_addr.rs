// @append-to: stun-types/src/attribute/xor_addr.rs
#[cfg(kani)]
mod verif_kani_xor {
    use super::*;
    use crate::attribute::kx_util::*;
    use std::net::{IpAddr, Ipv4Addr, Ipv6Addr};

    const COOKIE: [u8; 4] = [0x21, 0x12, 0xA4, 0x42];

    // C13 (IPv4): all 2^32 addresses x all ports x all transaction ids
    #[kani::proof]
    #[kani::unwind(50)]
    fn k13_xor_v4() {
        let ip: [u8; 4] = kani::any();
        let port: u16 = kani::any();
        let tid: u128 = kani::any();
        let t = TransactionId::from(tid);
        let a = SocketAddr::new(IpAddr::V4(Ipv4Addr::from(ip)), port);
        let x = XorMappedAddress::new(a, t);
        assert!(x.addr(t) == a);
        // RFC 8489 s14.2 wire value: 0, family 1, port ^ top 16 bits of the cookie, address ^ cookie
        let val = [0u8, 1, (port >> 8) as u8 ^ 0x21, (port & 0xff) as u8 ^ 0x12, ip[0] ^ COOKIE[0], ip[1] ^ COOKIE[1], ip[2] ^ COOKIE[2], ip[3] ^ COOKIE[3]];
        check_writers(&x, 0x0020, &val);
        // trip through the wire
        match XorMappedAddress::try_from(&x.to_raw()) {
            Ok(y) => { assert!(y == x); assert!(y.addr(t) == a); }
            Err(_) => assert!(false),
        }
    }

    // C13 (IPv6): all 2^128 addresses x all ports x all transaction ids; another id decodes to another address
    #[kani::proof]
    #[kani::unwind(50)]
    fn k13_xor_v6() {
        let ip: [u8; 16] = kani::any();
        let port: u16 = kani::any();
        let tid: u128 = kani::any();
        let t = TransactionId::from(tid);
        let a = SocketAddr::new(IpAddr::V6(Ipv6Addr::from(ip)), port);
        let x = XorMappedAddress::new(a, t);
        assert!(x.addr(t) == a);
        let tb = (tid & ((1u128 << 96) - 1)).to_be_bytes();   // tb[4..16] = the 96-bit id
        let mut val = [0u8; 20];
        val[1] = 2;
        val[2] = (port >> 8) as u8 ^ 0x21;
        val[3] = (port & 0xff) as u8 ^ 0x12;
        let mut i = 0;
        while i < 16 { val[4 + i] = ip[i] ^ (if i < 4 { COOKIE[i] } else { tb[i] }); i += 1; }
        check_writers(&x, 0x0020, &val);
        match XorMappedAddress::try_from(&x.to_raw()) {
            Ok(y) => { assert!(y == x); assert!(y.addr(t) == a); }
            Err(_) => assert!(false),
        }
        let tid2: u128 = kani::any();
        let t2 = TransactionId::from(tid2);
        if t2 != t { assert!(x.addr(t2) != a); }
    }

    // C08/C01: decoder of XOR-MAPPED-ADDRESS on every raw attribute (any type code, 0..=40 value bytes)
    #[kani::proof]
    #[kani::unwind(50)]
    fn k08_xor_mapped_decode() {
        let buf: [u8; 40] = kani::any();
        let (t, n, raw) = any_raw(&buf);
        let valid = (buf[1] == 1 && n == 8) || (buf[1] == 2 && n == 20);
        match XorMappedAddress::try_from(&raw) {
            Ok(v) => {
                assert!(t == 0x0020 && valid);
                // exposed fields = encoded fields (under transaction id 0 only the cookie is removed)
                let a = v.addr(TransactionId::from(0u128));
                assert!(a.port() == (((buf[2] ^ 0x21) as u16) << 8 | (buf[3] ^ 0x12) as u16));
                match a.ip() {
                    IpAddr::V4(ip) => { let o = ip.octets(); assert!(n == 8 && o[0] == buf[4] ^ 0x21 && o[1] == buf[5] ^ 0x12 && o[2] == buf[6] ^ 0xA4 && o[3] == buf[7] ^ 0x42); }
                    IpAddr::V6(ip) => { let o = ip.octets(); assert!(n == 20 && o[0] == buf[4] ^ 0x21 && o[3] == buf[7] ^ 0x42 && o[4] == buf[8] && o[15] == buf[19]); }
                }
                // re-encoding is stable (byte 0 is reserved and written as zero)
                let mut val = [0u8; 20];
                let mut i = 1;
                while i < 20 { if i < n { val[i] = buf[i]; } i += 1; }
                check_writers(&v, 0x0020, &val[..n]);
            }
            Err(e) => {
                assert!(!(t == 0x0020 && valid));
                if t != 0x0020 { assert!(matches!(e, StunParseError::WrongAttributeImplementation)); }
            }
        }
    }
}
