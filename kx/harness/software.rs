// @append-to: stun-types/src/attribute/software.rs
#[cfg(kani)]
mod verif_kani_software {
    use super::*;

    // C16: the one SOFTWARE text the generated error responses carry is accepted by the constructor and stored unchanged
    // (concrete input: the only one the response constructors use; the Verus contract of Software::new is assumed for it)
    #[kani::proof]
    #[kani::unwind(12)]
    fn k16_software_literal() {
        let s = Software::new("stun-types");
        assert!(s.is_ok());
        let s = s.unwrap();
        let b = s.software().as_bytes();
        let w = b"stun-types";
        assert!(b.len() == 10);
        let mut i = 0;
        while i < 10 { assert!(b[i] == w[i]); i += 1; }
    }
}
