// @append-to: stun-proto/src/agent.rs
#[cfg(kani)]
mod verif_kani_agent {
    use super::*;
    use std::net::{IpAddr, Ipv4Addr};

    fn base_instant() -> Instant {
        // harness-only: an arbitrary valid Instant without calling the clock
        let secs: i64 = kani::any();
        kani::assume(secs >= 0 && secs < 1_000_000_000);
        let nanos: u32 = kani::any();
        kani::assume(nanos < 1_000_000_000);
        unsafe { std::mem::transmute::<(i64, u32, u32), Instant>((secs, nanos, 0)) }
    }

    fn any_schedule() -> Vec<u64> {
        let e: [u64; 8] = kani::any();
        let mut i = 0;
        while i < 8 { kani::assume(e[i] <= 60_000 * 256); i += 1; }
        let n: u8 = kani::any();
        match n {
            0 => vec![],
            1 => vec![e[0]],
            2 => vec![e[0], e[1]],
            3 => vec![e[0], e[1], e[2]],
            4 => vec![e[0], e[1], e[2], e[3]],
            5 => vec![e[0], e[1], e[2], e[3], e[4]],
            6 => vec![e[0], e[1], e[2], e[3], e[4], e[5]],
            7 => vec![e[0], e[1], e[2], e[3], e[4], e[5], e[6]],
            _ => vec![e[0], e[1], e[2], e[3], e[4], e[5], e[6], e[7]],
        }
    }

    fn mk_state(sched: &Vec<u64>, lrt: u64, ti: usize, last: Option<Instant>, rc: bool, sc: bool, transport: TransportType, from: SocketAddr, to: SocketAddr) -> StunRequestState {
        StunRequestState {
            transaction_id: TransactionId::from(0x1234u128),
            request_had_credentials: false,
            bytes: vec![1, 2, 3, 4],
            transport,
            from,
            to,
            timeouts_ms: sched.clone(),
            last_retransmit_timeout_ms: lrt,
            recv_cancelled: rc,
            send_cancelled: sc,
            timeout_i: ti,
            last_send_time: last,
        }
    }

    // C06 / C05 / C18 / C20: the per-request state machine, for every schedule of 0..=8 entries, every position,
    // every flag combination, every (last_send, now) pair at millisecond granularity, and every time shift.
    #[kani::proof]
    #[kani::unwind(10)]
    fn k06_request_poll() {
        let from = SocketAddr::new(IpAddr::V4(Ipv4Addr::new(10, 0, 0, 1)), kani::any());
        let to = SocketAddr::new(IpAddr::V4(Ipv4Addr::new(10, 0, 0, 2)), kani::any());
        let transport = if kani::any() { TransportType::Udp } else { TransportType::Tcp };
        let base = base_instant();
        let sched = any_schedule();
        let len = sched.len();
        let lrt: u64 = kani::any();
        kani::assume(lrt <= 60_000 * 512);
        let ti: usize = kani::any();
        kani::assume(ti <= 9);
        let has_last: bool = kani::any();
        let last_off: u32 = kani::any();
        let now_off: u32 = kani::any();
        let last = if has_last { Some(base + Duration::from_millis(last_off as u64)) } else { None };
        let now = base + Duration::from_millis(now_off as u64);
        let rc: bool = kani::any();
        let sc: bool = kani::any();
        let mut st = mk_state(&sched, lrt, ti, last, rc, sc, transport, from, to);

        // ---- oracle, written from the statement of C06/C05 (RFC 8489 s6.2.1)
        // kind: 0 cancelled, 1 send, 2 wait(due), 3 timed out
        let (okind, odue, oti, olast): (u8, Option<Instant>, usize, Option<Instant>) = if rc {
            (0, None, ti, last)
        } else {
            let mut ti2 = ti;
            let mut early: Option<(u8, Option<Instant>)> = None;
            if let Some(l) = last {
                if ti >= len {
                    let due = l + Duration::from_millis(lrt);
                    early = Some(if now < due { (2, Some(due)) } else { (3, None) });
                } else {
                    let due = l + Duration::from_millis(sched[ti]);
                    if now < due { early = Some((2, Some(due))); } else { ti2 = ti + 1; }
                }
            }
            match early {
                Some((k, d)) => (k, d, ti, last),
                None => if sc { (0, None, ti2, last) } else { (1, None, ti2, Some(now)) },
            }
        };

        let ret = st.poll(now);
        let (kind, due) = match &ret {
            StunRequestPollRet::Cancelled => (0u8, None),
            StunRequestPollRet::SendData(t) => {
                // C18: the transmission is the unmodified request, addressed as asked
                assert!(t.data() == &[1u8, 2, 3, 4][..]);
                assert!(t.transport == transport && t.from == from && t.to == to);
                (1u8, None)
            }
            StunRequestPollRet::WaitUntil(w) => (2u8, Some(*w)),
            StunRequestPollRet::TimedOut => (3u8, None),
        };
        drop(ret);
        assert!(kind == okind);
        assert!(due == odue);
        assert!(st.last_send_time == olast);
        // a verdict other than "retransmit now" leaves the position unchanged; cancelled-after-due may advance it
        if okind != 0 { assert!(st.timeout_i == oti); }
        // nothing else ever changes
        assert!(st.bytes.len() == 4 && st.bytes[0] == 1 && st.bytes[3] == 4);
        assert!(st.transport == transport && st.from == from && st.to == to);
        assert!(st.recv_cancelled == rc && st.send_cancelled == sc);
        assert!(st.last_retransmit_timeout_ms == lrt && st.timeouts_ms.len() == len);
        // C06: polling earlier yields no event and the same t
        if kind == 2 {
            assert!(due.unwrap() > now);
            let again = st.poll(now);
            assert!(matches!(again, StunRequestPollRet::WaitUntil(w) if Some(w) == due));
        }
        // C06: after cancel_retransmissions nothing further is transmitted
        if sc { assert!(kind != 1); }
        kani::cover!(kind == 0);
        kani::cover!(kind == 1);
        kani::cover!(kind == 2);
        kani::cover!(kind == 3);
    }

    // C20: shifting every instant by d shifts every reported instant by d and changes nothing else (2-safety by self-composition)
    #[kani::proof]
    #[kani::unwind(10)]
    fn k20_request_poll_shift() {
        let from = SocketAddr::new(IpAddr::V4(Ipv4Addr::new(10, 0, 0, 1)), 1);
        let to = SocketAddr::new(IpAddr::V4(Ipv4Addr::new(10, 0, 0, 2)), 2);
        let base = base_instant();
        // bounded: schedules of exactly 2 symbolic entries (the unbounded statement is the Verus contract of poll, which mentions
        // instants only through differences; this harness cross-checks it on the real Timespec arithmetic)
        let e0: u64 = kani::any();
        let e1: u64 = kani::any();
        kani::assume(e0 <= 60_000 * 256 && e1 <= 60_000 * 256);
        let sched = vec![e0, e1];
        let lrt: u64 = kani::any();
        kani::assume(lrt <= 60_000 * 512);
        let ti: usize = kani::any();
        kani::assume(ti <= 3);
        let has_last: bool = kani::any();
        let last_off: u32 = kani::any();
        let now_off: u32 = kani::any();
        let d_ms: u32 = kani::any();
        kani::assume(d_ms <= 1_000_000_000);
        let d = Duration::from_millis(d_ms as u64);
        let last = if has_last { Some(base + Duration::from_millis(last_off as u64)) } else { None };
        let now = base + Duration::from_millis(now_off as u64);
        let rc: bool = kani::any();
        let sc: bool = kani::any();
        let mut a = mk_state(&sched, lrt, ti, last, rc, sc, TransportType::Udp, from, to);
        let mut b = mk_state(&sched, lrt, ti, last.map(|l| l + d), rc, sc, TransportType::Udp, from, to);
        let ra = a.poll(now);
        let rb = b.poll(now + d);
        match (&ra, &rb) {
            (StunRequestPollRet::Cancelled, StunRequestPollRet::Cancelled) => (),
            (StunRequestPollRet::TimedOut, StunRequestPollRet::TimedOut) => (),
            (StunRequestPollRet::SendData(x), StunRequestPollRet::SendData(y)) => { assert!(x.data() == y.data() && x.to == y.to && x.from == y.from); }
            (StunRequestPollRet::WaitUntil(x), StunRequestPollRet::WaitUntil(y)) => { assert!(*x + d == *y); }
            _ => assert!(false),
        }
        drop(ra);
        drop(rb);
        assert!(a.timeout_i == b.timeout_i);
        assert!(a.last_send_time.map(|l| l + d) == b.last_send_time);
    }

    // C06: the defaults set by StunRequestState::new are the RFC 8489 schedule (needs a MessageBuilder; bounded: one empty request)
    // -- not run under Kani (MessageBuilder is out of reach); see VX unit agent and BX.
}
