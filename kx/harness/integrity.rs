// @append-to: stun-types/src/attribute/integrity.rs
#[cfg(kani)]
mod verif_kani_integrity {
    use super::*;
    use crate::attribute::kx_util::*;

    #[kani::proof]
    #[kani::unwind(50)]
    fn k08_message_integrity() {
        let buf: [u8; 40] = kani::any();
        let (t, n, raw) = any_raw(&buf);
        match MessageIntegrity::try_from(&raw) {
            Ok(v) => {
                assert!(t == 0x0008 && n == 20);
                let h = v.hmac();
                let mut i = 0;
                while i < 20 { assert!(h[i] == buf[i]); i += 1; }
                check_writers(&v, 0x0008, &buf[..20]);
                assert!(MessageIntegrity::new(*h) == v);
            }
            Err(e) => {
                assert!(!(t == 0x0008 && n == 20));
                if t != 0x0008 { assert!(matches!(e, StunParseError::WrongAttributeImplementation)); } else { assert!(len_err_ok(&e, n, 20, 20)); }
            }
        }
    }
}
