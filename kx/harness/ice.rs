// @append-to: stun-types/src/attribute/ice.rs
#[cfg(kani)]
mod verif_kani_ice {
    use super::*;
    use crate::attribute::kx_util::*;

    #[kani::proof]
    #[kani::unwind(50)]
    fn k08_priority() {
        let buf: [u8; 40] = kani::any();
        let (t, n, raw) = any_raw(&buf);
        match Priority::try_from(&raw) {
            Ok(v) => {
                assert!(t == 0x0024 && n == 4);
                assert!(v.priority() == (buf[0] as u32) << 24 | (buf[1] as u32) << 16 | (buf[2] as u32) << 8 | buf[3] as u32);
                check_writers(&v, 0x0024, &buf[..4]);
                assert!(Priority::new(v.priority()) == v);
            }
            Err(e) => {
                assert!(!(t == 0x0024 && n == 4));
                if t != 0x0024 { assert!(matches!(e, StunParseError::WrongAttributeImplementation)); } else { assert!(len_err_ok(&e, n, 4, 4)); }
            }
        }
    }

    #[kani::proof]
    #[kani::unwind(50)]
    fn k08_priority_new() {
        let p: u32 = kani::any();
        let v = Priority::new(p);
        let val = p.to_be_bytes();
        check_writers(&v, 0x0024, &val);
        let raw = v.to_raw();
        assert!(matches!(Priority::try_from(&raw), Ok(w) if w == v && w.priority() == p));
    }

    #[kani::proof]
    #[kani::unwind(50)]
    fn k08_use_candidate() {
        let buf: [u8; 40] = kani::any();
        let (t, n, raw) = any_raw(&buf);
        match UseCandidate::try_from(&raw) {
            Ok(v) => {
                assert!(t == 0x0025 && n == 0);
                check_writers(&v, 0x0025, &buf[..0]);
            }
            Err(e) => {
                assert!(!(t == 0x0025 && n == 0));
                if t != 0x0025 { assert!(matches!(e, StunParseError::WrongAttributeImplementation)); } else { assert!(len_err_ok(&e, n, 0, 0)); }
            }
        }
        let v = UseCandidate::new();
        assert!(matches!(UseCandidate::try_from(&v.to_raw()), Ok(_)));
    }

    fn be64(b: &[u8]) -> u64 {
        let mut r: u64 = 0;
        let mut i = 0;
        while i < 8 { r = (r << 8) | b[i] as u64; i += 1; }
        r
    }

    #[kani::proof]
    #[kani::unwind(50)]
    fn k08_ice_controlled() {
        let buf: [u8; 40] = kani::any();
        let (t, n, raw) = any_raw(&buf);
        match IceControlled::try_from(&raw) {
            Ok(v) => {
                assert!(t == 0x8029 && n == 8);
                assert!(v.tie_breaker() == be64(&buf[..8]));
                check_writers(&v, 0x8029, &buf[..8]);
                assert!(IceControlled::new(v.tie_breaker()) == v);
            }
            Err(e) => {
                assert!(!(t == 0x8029 && n == 8));
                if t != 0x8029 { assert!(matches!(e, StunParseError::WrongAttributeImplementation)); } else { assert!(len_err_ok(&e, n, 8, 8)); }
            }
        }
    }

    #[kani::proof]
    #[kani::unwind(50)]
    fn k08_ice_controlling() {
        let buf: [u8; 40] = kani::any();
        let (t, n, raw) = any_raw(&buf);
        match IceControlling::try_from(&raw) {
            Ok(v) => {
                assert!(t == 0x802A && n == 8);
                assert!(v.tie_breaker() == be64(&buf[..8]));
                check_writers(&v, 0x802A, &buf[..8]);
                assert!(IceControlling::new(v.tie_breaker()) == v);
            }
            Err(e) => {
                assert!(!(t == 0x802A && n == 8));
                if t != 0x802A { assert!(matches!(e, StunParseError::WrongAttributeImplementation)); } else { assert!(len_err_ok(&e, n, 8, 8)); }
            }
        }
    }

    #[kani::proof]
    #[kani::unwind(50)]
    fn k08_ice_new() {
        let p: u64 = kani::any();
        let val = p.to_be_bytes();
        let v = IceControlled::new(p);
        check_writers(&v, 0x8029, &val);
        assert!(matches!(IceControlled::try_from(&v.to_raw()), Ok(w) if w == v));
        let v = IceControlling::new(p);
        check_writers(&v, 0x802A, &val);
        assert!(matches!(IceControlling::try_from(&v.to_raw()), Ok(w) if w == v));
    }
}
