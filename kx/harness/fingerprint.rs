// @append-to: stun-types/src/attribute/fingerprint.rs
#[cfg(kani)]
mod verif_kani_fingerprint {
    use super::*;
    use crate::attribute::kx_util::*;
    use crate::attribute::AttributeFromRaw;

    // Discharges the contract that VX assumes for Fingerprint::from_raw (= TryFrom<&RawAttribute>):
    //   Ok <=> type 0x8028 and 4 value bytes; Ok(f) => f.fingerprint() == value ^ 53 54 55 4e;
    //   errors are WrongAttributeImplementation / Truncated / TooLarge only.   Also C08/C09/C12 for FINGERPRINT.
    #[kani::proof]
    #[kani::unwind(50)]
    fn k_fingerprint() {
        let buf: [u8; 40] = kani::any();
        let (t, n, raw) = any_raw(&buf);
        match Fingerprint::from_raw(&raw) {
            Ok(v) => {
                assert!(t == 0x8028 && n == 4);
                let f = v.fingerprint();
                assert!(f[0] == buf[0] ^ 0x53 && f[1] == buf[1] ^ 0x54 && f[2] == buf[2] ^ 0x55 && f[3] == buf[3] ^ 0x4e);
                check_writers(&v, 0x8028, &buf[..4]);
                assert!(Fingerprint::new(*f) == v);
            }
            Err(e) => {
                assert!(!(t == 0x8028 && n == 4));
                if t != 0x8028 { assert!(matches!(e, StunParseError::WrongAttributeImplementation)); } else { assert!(len_err_ok(&e, n, 4, 4)); }
            }
        }
    }

    // C09: the value written for a CRC c is c ^ 0x5354554e, for all 2^32 CRC values; decode(encode) == id
    #[kani::proof]
    #[kani::unwind(50)]
    fn k09_fingerprint_xor() {
        let c: [u8; 4] = kani::any();
        let v = Fingerprint::new(c);
        let val = [c[0] ^ 0x53, c[1] ^ 0x54, c[2] ^ 0x55, c[3] ^ 0x4e];
        check_writers(&v, 0x8028, &val);
        assert!(matches!(Fingerprint::try_from(&v.to_raw()), Ok(w) if w == v && *w.fingerprint() == c));
    }
}
