// @append-to: stun-types/src/attribute/password_algorithm.rs
#[cfg(kani)]
mod verif_kani_pwalgo {
    use super::*;
    use crate::attribute::kx_util::*;

    // C08/C01: PASSWORD-ALGORITHM (single): accepted <=> type 0x001D, algorithm 1 or 2, parameter length 0,
    // value length a positive multiple of 4 (the decoder ignores bytes after the first 4; recorded in DESIGN.md)
    #[kani::proof]
    #[kani::unwind(50)]
    fn k08_password_algorithm() {
        let buf: [u8; 40] = kani::any();
        let (t, n, raw) = any_raw(&buf);
        let algo = (buf[0] as u16) << 8 | buf[1] as u16;
        let plen = (buf[2] as u16) << 8 | buf[3] as u16;
        let valid = n >= 4 && n % 4 == 0 && plen == 0 && (algo == 1 || algo == 2);
        match PasswordAlgorithm::try_from(&raw) {
            Ok(v) => {
                assert!(t == 0x001D && valid);
                assert!(v.algorithm() == if algo == 1 { PasswordAlgorithmValue::MD5 } else { PasswordAlgorithmValue::SHA256 });
                check_writers(&v, 0x001D, &buf[..4]);
                assert!(matches!(PasswordAlgorithm::try_from(&v.to_raw()), Ok(w) if w == v));
            }
            Err(e) => {
                assert!(!(t == 0x001D && valid));
                if t != 0x001D { assert!(matches!(e, StunParseError::WrongAttributeImplementation)); }
            }
        }
    }
}
