// @append-to: stun-types/src/message.rs
// KX harnesses for message.rs (injected under cfg(kani) into a scratch copy; never committed to /repo)
#[cfg(kani)]
mod verif_kani_message {
    use super::*;

    /// RFC 8489 s5, written bit by bit: M11..M7 C1 M6..M4 C0 M3..M0
    fn rfc_type(class: u16, method: u16) -> u16 {
        let mut v: u16 = 0;
        let mut i = 0;
        while i < 4 { v |= ((method >> i) & 1) << i; i += 1; }          // M3..M0 -> bits 3..0
        v |= (class & 1) << 4;                                          // C0 -> bit 4
        let mut i = 4;
        while i < 7 { v |= ((method >> i) & 1) << (i + 1); i += 1; }    // M6..M4 -> bits 7..5
        v |= ((class >> 1) & 1) << 8;                                   // C1 -> bit 8
        let mut i = 7;
        while i < 12 { v |= ((method >> i) & 1) << (i + 2); i += 1; }   // M11..M7 -> bits 13..9
        v
    }
    fn class_of(c: u8) -> MessageClass {
        match c { 0 => MessageClass::Request, 1 => MessageClass::Indication, 2 => MessageClass::Success, _ => MessageClass::Error }
    }

    // C19: all 4 x 4096 (class, method) pairs: the type field is the RFC interleaving and decodes back
    #[kani::proof]
    #[kani::unwind(13)]
    fn k19_class_method() {
        let m: u16 = kani::any();
        kani::assume(m <= 0xfff);
        let c: u8 = kani::any();
        kani::assume(c < 4);
        let class = class_of(c);
        let t = MessageType::from_class_method(class, m);
        assert!(t.0 == rfc_type(c as u16, m));
        assert!(t.class() == class);
        assert!(t.method() == m);
        assert!(t.has_class(class) && t.has_method(m));
        assert!(t.is_response() == (c >= 2));
        // wire form and back
        let mut b = [0u8; 2];
        t.write_into(&mut b);
        assert!(b[0] == (t.0 >> 8) as u8 && b[1] == (t.0 & 0xff) as u8);
        let back = MessageType::from_bytes(&b);
        assert!(matches!(back, Ok(x) if x == t));
    }

    // C19 / C01: all 65536 field values (+ arbitrary trailing bytes): refused iff one of the top two bits is set,
    // every other value decodes to a unique (class, method)
    #[kani::proof]
    #[kani::unwind(13)]
    fn k19_from_bytes_all() {
        let b: [u8; 4] = kani::any();
        let n: usize = kani::any();
        kani::assume(n <= 4);
        let v = ((b[0] as u16) << 8) | b[1] as u16;
        match MessageType::from_bytes(&b[..n]) {
            Ok(t) => {
                assert!(n >= 2);
                assert!(v & 0xc000 == 0);
                assert!(t.0 == v);
                // unique (class, method): re-encoding the decoded pair gives the same field
                let c = match t.class() { MessageClass::Request => 0u16, MessageClass::Indication => 1, MessageClass::Success => 2, MessageClass::Error => 3 };
                assert!(t.method() <= 0xfff);
                assert!(rfc_type(c, t.method()) == v);
            }
            Err(StunParseError::NotStun) => { assert!(n >= 2 && v & 0xc000 != 0); }
            Err(StunParseError::Truncated { expected, actual }) => { assert!(n < 2 && expected == 2 && actual == n); }
            Err(_) => { assert!(false); }
        }
    }

    // C19: transaction ids are 96 bit: conversion keeps the low 96 bits, and converts back unchanged
    #[kani::proof]
    fn k19_tid_mask() {
        let x: u128 = kani::any();
        let t = TransactionId::from(x);
        let y: u128 = t.into();
        assert!(y == x & ((1u128 << 96) - 1));
        assert!(y >> 96 == 0);
        assert!(TransactionId::from(y) == t);
    }

    // C17 / C02 / C19: the stand-alone header decoder, all 20-byte headers and every shorter/longer slice of a 24-byte buffer
    #[kani::proof]
    fn k17_header_from_bytes() {
        let b: [u8; 24] = kani::any();
        let n: usize = kani::any();
        kani::assume(n <= 24);
        let hdr_ok = n >= 20 && b[0] & 0xc0 == 0 && b[4] == 0x21 && b[5] == 0x12 && b[6] == 0xa4 && b[7] == 0x42;
        match MessageHeader::from_bytes(&b[..n]) {
            Ok(h) => {
                assert!(hdr_ok);
                assert!(h.data_length() == ((b[2] as u16) << 8 | b[3] as u16));
                assert!(h.get_type().0 == ((b[0] as u16) << 8 | b[1] as u16));
                let mut id: u128 = 0;
                let mut i = 8;
                while i < 20 { id = (id << 8) | b[i] as u128; i += 1; }
                let got: u128 = h.transaction_id().into();
                assert!(got == id);
            }
            Err(StunParseError::Truncated { expected, actual }) => { assert!(n < 20 && expected == 20 && actual == n); }
            Err(StunParseError::NotStun) => { assert!(n >= 20 && !hdr_ok); }
            Err(_) => { assert!(false); }
        }
    }

    // shim cross-checks: the byteorder functions are exactly the big-endian byte arithmetic that vx/shims/bytes.rs states
    #[kani::proof]
    fn k_shim_read() {
        let b: [u8; 16] = kani::any();
        assert!(BigEndian::read_u16(&b) == (b[0] as u16) * 256 + b[1] as u16);
        assert!(BigEndian::read_u32(&b) == (b[0] as u32) << 24 | (b[1] as u32) << 16 | (b[2] as u32) << 8 | b[3] as u32);
        let w = |k: usize| (b[k] as u32) << 24 | (b[k + 1] as u32) << 16 | (b[k + 2] as u32) << 8 | b[k + 3] as u32;
        assert!(BigEndian::read_u64(&b) == (w(0) as u64) << 32 | w(4) as u64);
        assert!(BigEndian::read_u128(&b) == (w(0) as u128) << 96 | (w(4) as u128) << 64 | (w(8) as u128) << 32 | w(12) as u128);
    }
    #[kani::proof]
    fn k_shim_write_u16() {
        let mut b: [u8; 6] = kani::any();
        let old = b;
        let v: u16 = kani::any();
        BigEndian::write_u16(&mut b[2..4], v);
        assert!(b[2] == (v >> 8) as u8 && b[3] == (v & 0xff) as u8);
        assert!(b[0] == old[0] && b[1] == old[1] && b[4] == old[4] && b[5] == old[5]);
    }

    // shim cross-check for be_write_u128_at_slice / be_write_u16_slice (vx/shims/slices.rs): byteorder writes 16 / 2 bytes
    // big-endian at the start of the given sub-slice and touches nothing else
    #[kani::proof]
    #[kani::unwind(26)]
    fn k_shim_u128() {
        let mut b: [u8; 24] = kani::any();
        let old = b;
        let v: u128 = kani::any();
        BigEndian::write_u128(&mut b[4..20], v);
        let mut i = 0;
        while i < 16 { assert!(b[4 + i] == (v >> (120 - 8 * i)) as u8); i += 1; }
        let mut i = 0;
        while i < 24 { if i < 4 || i >= 20 { assert!(b[i] == old[i]); } i += 1; }
        let mut c: [u8; 5] = kani::any();
        let oldc = c;
        let w: u16 = kani::any();
        BigEndian::write_u16(&mut c, w);
        assert!(c[0] == (w >> 8) as u8 && c[1] == (w & 0xff) as u8 && c[2] == oldc[2] && c[3] == oldc[3] && c[4] == oldc[4]);
    }

    // shim cross-check for vx/shims/slices.rs: sub-slice copy / fill / big-endian writes through `&mut [u8]`
    #[kani::proof]
    #[kani::unwind(14)]
    fn k_shim_slices() {
        let old: [u8; 12] = kani::any();
        let a: usize = kani::any();
        let b: usize = kani::any();
        kani::assume(a <= b && b <= 12);
        // X[a..b].fill(v)
        let v: u8 = kani::any();
        let mut d = old;
        d[a..b].fill(v);
        let mut i = 0;
        while i < 12 { assert!(d[i] == if i >= a && i < b { v } else { old[i] }); i += 1; }
        // X[a..b].copy_from_slice(src) with |src| == b - a
        let src: [u8; 12] = kani::any();
        let mut d = old;
        d[a..b].copy_from_slice(&src[..b - a]);
        let mut i = 0;
        while i < 12 { assert!(d[i] == if i >= a && i < b { src[i - a] } else { old[i] }); i += 1; }
        // BigEndian::write_u32 / write_u64 into a sub-slice write the first 4 / 8 bytes only
        let n: u32 = kani::any();
        let m: u64 = kani::any();
        if b - a >= 4 {
            let mut d = old;
            BigEndian::write_u32(&mut d[a..b], n);
            assert!(d[a] == (n >> 24) as u8 && d[a + 1] == (n >> 16) as u8 && d[a + 2] == (n >> 8) as u8 && d[a + 3] == n as u8);
            let mut i = 0;
            while i < 12 { if i < a || i >= a + 4 { assert!(d[i] == old[i]); } i += 1; }
        }
        if b - a >= 8 {
            let mut d = old;
            BigEndian::write_u64(&mut d[a..b], m);
            let mut i = 0;
            while i < 8 { assert!(d[a + i] == (m >> (56 - 8 * i)) as u8); i += 1; }
            let mut i = 0;
            while i < 12 { if i < a || i >= a + 8 { assert!(d[i] == old[i]); } i += 1; }
        }
    }

    // C02/C10 (bounded): lookups through the iterator adaptors on messages of three zero-length attributes with symbolic
    // types (FINGERPRINT excluded: its CRC loop is out of reach).  Discharges, on these shapes, the contract that VX assumes
    // for Message::raw_attribute: the first exposed attribute of the type.
    #[kani::proof]
    #[kani::unwind(6)]
    fn k02_lookups_small() {
        let t: [u16; 3] = kani::any();
        let mut i = 0;
        while i < 3 { kani::assume(t[i] != 0x8028); i += 1; }
        let mut b = [0u8; 32];
        b[1] = 1; b[3] = 12;
        b[4] = 0x21; b[5] = 0x12; b[6] = 0xa4; b[7] = 0x42;
        let mut i = 0;
        while i < 3 { b[20 + 4 * i] = (t[i] >> 8) as u8; b[21 + 4 * i] = t[i] as u8; i += 1; }
        let q: u16 = kani::any();
        if let Ok(msg) = Message::from_bytes(&b) {
            // exposure rule on the three types
            let mut exposed = [false; 3];
            let mut st = 0u8;
            let mut i = 0;
            while i < 3 {
                let ty = t[i];
                if st == 0 { exposed[i] = true; st = if ty == 0x0008 { 1 } else if ty == 0x001c { 2 } else { 0 }; }
                else if st == 1 && ty == 0x001c { exposed[i] = true; st = 2; }
                else { st = 2; }
                i += 1;
            }
            let mut first: Option<usize> = None;
            let mut i = 3;
            while i > 0 { i -= 1; if exposed[i] && t[i] == q { first = Some(i); } }
            assert!(msg.has_attribute(AttributeType::new(q)) == first.is_some());
            match msg.raw_attribute(AttributeType::new(q)) {
                Some(a) => { assert!(first.is_some()); assert!(a.get_type().value() == q && a.length() == 0); }
                None => assert!(first.is_none()),
            }
        }
    }
    // C11 (bounded): the two builder queries that VX assumes (iterator adaptors any / find over the SmallVec of types):
    // a builder holding three raw zero-length attributes of symbolic, pairwise different, non-sealing types.
    #[kani::proof]
    #[kani::unwind(6)]
    fn k11_builder_queries_small() {
        let t: [u16; 3] = kani::any();
        kani::assume(t[0] != t[1] && t[0] != t[2] && t[1] != t[2]);
        let mut i = 0;
        while i < 3 { kani::assume(t[i] != 0x0008 && t[i] != 0x001c && t[i] != 0x8028); i += 1; }
        // (builder_request draws a random id: rand is outside Kani's reach - internal compiler error - so the id is symbolic)
        let mut b = Message::builder(MessageType::from_class_method(MessageClass::Request, BINDING), TransactionId::from(kani::any::<u128>()));
        let empty: [u8; 0] = [];
        let mut i = 0;
        while i < 3 {
            let r = b.add_raw_attribute(RawAttribute::new(AttributeType::new(t[i]), &empty));
            assert!(r.is_ok());
            i += 1;
        }
        let q: u16 = kani::any();
        let present = q == t[0] || q == t[1] || q == t[2];
        assert!(b.has_attribute(AttributeType::new(q)) == present);
        // first element of the builder's list that is one of the two asked for
        let q2: u16 = kani::any();
        let among = |x: u16| x == q || x == q2;
        let expect = if among(t[0]) { Some(t[0]) } else if among(t[1]) { Some(t[1]) } else if among(t[2]) { Some(t[2]) } else { None };
        let got = b.has_any_attribute(&[AttributeType::new(q), AttributeType::new(q2)]).map(|a| a.value());
        assert!(got == expect);
    }
    // C03/C12 (bounded): the two iterator-sum helpers that VX assumes (byte_len, build): a builder of two raw attributes with
    // symbolic types, the first with 0..=4 symbolic value bytes, the second empty; build() == header + padded TLVs,
    // byte_len() == its length
    #[kani::proof]
    #[kani::unwind(7)]
    fn k03_build_small() {
        let t: [u16; 2] = kani::any();
        kani::assume(t[0] != t[1]);
        let mut i = 0;
        while i < 2 { kani::assume(t[i] != 0x0008 && t[i] != 0x001c && t[i] != 0x8028); i += 1; }
        let v0: [u8; 4] = kani::any();
        let n0: usize = kani::any();
        kani::assume(n0 <= 4);
        let empty: [u8; 0] = [];
        let id: u128 = kani::any();
        let mut b = Message::builder(MessageType::from_class_method(MessageClass::Request, BINDING), TransactionId::from(id));
        assert!(b.add_raw_attribute(RawAttribute::new(AttributeType::new(t[0]), &v0[..n0])).is_ok());
        assert!(b.add_raw_attribute(RawAttribute::new(AttributeType::new(t[1]), &empty)).is_ok());
        let p0 = (n0 + 3) / 4 * 4;
        let total = 20 + 4 + p0 + 4;
        assert!(b.byte_len() == total);
        let out = b.build();
        assert!(out.len() == total);
        assert!(out[0] == 0 && out[1] == 1 && out[2] == 0 && out[3] as usize == total - 20);
        assert!(out[4] == 0x21 && out[5] == 0x12 && out[6] == 0xa4 && out[7] == 0x42);
        assert!(out[8] == (id >> 88) as u8 && out[19] == id as u8);
        assert!(out[20] == (t[0] >> 8) as u8 && out[21] == t[0] as u8 && out[22] == 0 && out[23] as usize == n0);
        let mut k = 0;
        while k < 4 { if k < n0 { assert!(out[24 + k] == v0[k]); } else if k < p0 { assert!(out[24 + k] == 0); } k += 1; }
        let o = 24 + p0;
        assert!(out[o] == (t[1] >> 8) as u8 && out[o + 1] == t[1] as u8 && out[o + 2] == 0 && out[o + 3] == 0);
    }
}
