// @append-to: stun-types/src/attribute/mod.rs
#[cfg(kani)]
mod verif_kani_attr {
    use super::*;

    // C16: comprehension-required is exactly `type value < 0x8000`, all 65536 types
    #[kani::proof]
    fn k16_comprehension_required() {
        let t: u16 = kani::any();
        let at = AttributeType::new(t);
        assert!(at.comprehension_required() == (t < 0x8000));
        assert!(at.value() == t);
        let back: u16 = AttributeType::from(t).into();
        assert!(back == t);
    }

    // padded length: next multiple of four, all 16-bit lengths
    #[kani::proof]
    fn k_padded_attr_len() {
        let n: u16 = kani::any();
        let p = padded_attr_len(n as usize);
        assert!(p % 4 == 0 && p >= n as usize && p < n as usize + 4);
    }

    // check_len: every length against the range shapes used by the decoders
    #[kani::proof]
    fn k_check_len() {
        let len: usize = kani::any();
        let a: usize = kani::any();
        let b: usize = kani::any();
        kani::assume(a <= 70000 && b <= 70000);
        // a..=b
        match check_len(len, a..=b) {
            Ok(()) => assert!(len >= a && len <= b),
            Err(StunParseError::Truncated { expected, actual }) => assert!(len < a && expected == a && actual == len),
            Err(StunParseError::TooLarge { expected, actual }) => assert!(len >= a && len > b && expected == b && actual == len),
            Err(_) => assert!(false),
        }
        // ..=b
        match check_len(len, ..=b) {
            Ok(()) => assert!(len <= b),
            Err(StunParseError::TooLarge { expected, actual }) => assert!(len > b && expected == b && actual == len),
            Err(_) => assert!(false),
        }
        // a..
        match check_len(len, a..) {
            Ok(()) => assert!(len >= a),
            Err(StunParseError::Truncated { expected, actual }) => assert!(len < a && expected == a && actual == len),
            Err(_) => assert!(false),
        }
        // ..
        assert!(check_len(len, ..).is_ok());
    }

    // RawAttribute::from_bytes on every buffer of up to 12 bytes (bounded) : header fields, value slice, errors
    #[kani::proof]
    #[kani::unwind(10)]
    fn k_raw_from_bytes_small() {
        let b: [u8; 12] = kani::any();
        let n: usize = kani::any();
        kani::assume(n <= 12);
        match RawAttribute::from_bytes(&b[..n]) {
            Ok(a) => {
                assert!(n >= 4);
                let l = ((b[2] as usize) << 8) | b[3] as usize;
                assert!(l <= n - 4);
                assert!(a.get_type().value() == ((b[0] as u16) << 8 | b[1] as u16));
                assert!(a.length() as usize == l && a.value.len() == l);
                let v: &[u8] = &a.value;
                let mut i = 0;
                while i < 8 { if i < l { assert!(v[i] == b[4 + i]); } i += 1; }
            }
            Err(StunParseError::Truncated { expected, actual }) => {
                if n < 4 { assert!(expected == 4 && actual == n); } else { assert!(expected > n - 4 && actual == n - 4); }
            }
            Err(_) => assert!(false),
        }
    }
}

// shared helpers for the typed-attribute harnesses in the sub-modules
#[cfg(kani)]
pub(crate) mod kx_util {
    use super::*;

    /// C12 + encode half of C08 for one attribute value `a` whose RFC encoding is (`ty`, `val`):
    /// in-place writer == raw conversion == RFC layout; exactly the padded length is written, declared
    /// length == value length, padding zero, nothing beyond touched; a short destination fails with the
    /// required / available sizes and writes nothing.
    pub fn check_writers<A: AttributeWrite>(a: &A, ty: u16, val: &[u8]) {
        let vl = val.len();
        assert!(vl <= 36);
        let padded = 4 + (vl + 3) / 4 * 4;
        assert!(a.get_type().value() == ty);
        assert!(a.length() as usize == vl);
        assert!(a.padded_len() == padded);
        let mut dest = [0xAAu8; 48];
        match a.write_into(&mut dest) {
            Ok(n) => assert!(n == padded),
            Err(_) => assert!(false),
        }
        assert!(dest[0] == (ty >> 8) as u8 && dest[1] == (ty & 0xff) as u8);
        assert!(dest[2] == (vl >> 8) as u8 && dest[3] == (vl & 0xff) as u8);
        let mut i = 0;
        while i < 44 {
            if i < vl { assert!(dest[4 + i] == val[i]); }
            else if 4 + i < padded { assert!(dest[4 + i] == 0); }
            else { assert!(dest[4 + i] == 0xAA); }
            i += 1;
        }
        // raw conversion carries the same type, length and value
        let raw = a.to_raw();
        assert!(raw.get_type().value() == ty);
        assert!(raw.header.length() as usize == vl);
        assert!(raw.value.len() == vl);
        let rv: &[u8] = &raw.value;
        let mut i = 0;
        while i < 36 { if i < vl { assert!(rv[i] == val[i]); } i += 1; }
        // short destination
        let k: usize = kani::any();
        kani::assume(k < padded);
        let mut small = [0x55u8; 48];
        match a.write_into(&mut small[..k]) {
            Err(StunWriteError::TooSmall { expected, actual }) => assert!(expected == padded && actual == k),
            _ => assert!(false),
        }
        let mut i = 0;
        while i < 48 { assert!(small[i] == 0x55); i += 1; }
    }

    /// a symbolic raw attribute over `buf[..n]` with a symbolic type code
    pub fn any_raw<'a>(buf: &'a [u8; 40]) -> (u16, usize, RawAttribute<'a>) {
        let t: u16 = kani::any();
        let n: usize = kani::any();
        kani::assume(n <= 40);
        (t, n, RawAttribute::new(AttributeType::new(t), &buf[..n]))
    }

    /// error produced for a right-type value whose length is outside a..=b.  C08 pins that such a value is REFUSED; which variant and
    /// which byte counts are reported is not part of any property (only a value of another TYPE must be reported as
    /// WrongAttributeImplementation), so any error is accepted here.
    pub fn len_err_ok(_e: &StunParseError, n: usize, a: usize, b: usize) -> bool {
        n < a || n > b
    }
}

#[cfg(kani)]
mod verif_kani_raw {
    use super::*;
    // C12: a raw attribute of 0..=12 value bytes: write_into == to_bytes, exactly the padded length
    #[kani::proof]
    #[kani::unwind(50)]
    fn k12_raw_attribute() {
        let buf: [u8; 8] = kani::any();
        let n: usize = kani::any();
        kani::assume(n <= 8);
        let t: u16 = kani::any();
        let raw = RawAttribute::new(AttributeType::new(t), &buf[..n]);
        kx_util::check_writers(&raw, t, &buf[..n]);
    }
}
