extern crate proc_macro;
use proc_macro::TokenStream;
#[proc_macro_attribute]
pub fn instrument(_args: TokenStream, item: TokenStream) -> TokenStream { item }
