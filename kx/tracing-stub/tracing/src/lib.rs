//! No-op stand-in for `tracing`: every event macro expands to nothing (arguments are not
//! evaluated), `#[instrument]` returns the item unchanged.
pub use tracing_attributes::instrument;
#[macro_export] macro_rules! trace { ($($t:tt)*) => {{}}; }
#[macro_export] macro_rules! debug { ($($t:tt)*) => {{}}; }
#[macro_export] macro_rules! info { ($($t:tt)*) => {{}}; }
#[macro_export] macro_rules! warn { ($($t:tt)*) => {{}}; }
#[macro_export] macro_rules! error { ($($t:tt)*) => {{}}; }
