"""BX engine (bounded stand-in executing the real code) - filled in later."""


def run_modes(pid, modes, tier='quick', seed=1):
    return {'report': [], 'cmds': [], 'violations': [], 'undecided': [], 'samples': [], 'evaluations': 0, 'distinct': 0}


def replay_witness(pid, v):
    return False
