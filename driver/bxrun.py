"""BX engine: bounded stand-in that executes the real crates (path dependencies on /repo) against the
contracts written as run-time oracles; also the replay driver and the witness finder."""
import json
import os
import subprocess
import time

ROOT = os.path.dirname(os.path.dirname(os.path.abspath(__file__)))
TARGET = os.path.join(ROOT, 'build', 'bx-target')
BIN = os.path.join(TARGET, 'debug', 'bx')


def build():
    env = dict(os.environ)
    env['CARGO_NET_OFFLINE'] = 'true'
    env['CARGO_TARGET_DIR'] = TARGET
    p = subprocess.run(['cargo', 'build', '--offline', '--bin', 'bx'], cwd=os.path.join(ROOT, 'bx'), env=env,
                       stdout=subprocess.PIPE, stderr=subprocess.STDOUT, text=True)
    if p.returncode != 0:
        errs = '\n'.join(l for l in p.stdout.split('\n') if l.startswith('error'))[:800]
        return 'bx does not build against the current tree (public API changed?): ' + errs
    return None


def run_modes(pid, modes, tier='quick', seed=1):
    out = {'report': [], 'cmds': [], 'violations': [], 'undecided': [], 'samples': [], 'evaluations': 0, 'distinct': 0}
    err = build()
    if err:
        out['undecided'].append('bx: ' + err)
        return out
    for mode in modes:
        cmd = [BIN, mode, tier, str(seed)]
        t0 = time.time()
        try:
            p = subprocess.run(cmd, stdout=subprocess.PIPE, stderr=subprocess.PIPE, text=True, timeout=3600 if tier == 'thorough' else 600)
        except subprocess.TimeoutExpired:
            out['violations'].append({'engine': 'bx', 'key': '%s:hang' % pid, 'what': 'bounded stand-in %s did not terminate within the time limit' % mode, 'obligation': 'bx::' + mode, 'witness': mode + ':rerun'})
            continue
        dt = time.time() - t0
        out['cmds'].append('bx/target/debug/bx %s %s %d   (crate bx, path dependencies on /repo/stun-types and /repo/stun-proto)' % (mode, tier, seed))
        last = p.stdout.strip().split('\n')[-1] if p.stdout.strip() else ''
        try:
            d = json.loads(last)
        except Exception:
            # the process died: a crash (stack overflow, abort) in the real code
            tail = (p.stderr or '')[-600:]
            out['violations'].append({'engine': 'bx', 'key': '%s:crash' % pid, 'what': 'bounded stand-in %s crashed (rc %s): %s' % (mode, p.returncode, tail), 'obligation': 'bx::' + mode, 'witness': mode + ':rerun'})
            continue
        if 'error' in d:
            out['undecided'].append('bx/%s: %s' % (mode, d['error']))
            continue
        out['evaluations'] += d['evaluations']
        out['distinct'] += d['distinct_nontrivial']
        out['report'].append({'mode': mode, 'evaluations': d['evaluations'], 'distinct_nontrivial': d['distinct_nontrivial'], 'rule': d['rule'], 'exhaustive_part': d.get('notes', []),
                              'bounded': True, 'wall_s': round(dt, 2), 'violations': len(d['violations'])})
        out['samples'] += [{'engine': 'bx', 'mode': mode, 'case': s} for s in d['samples'][:3]]
        seen = set()
        for v in d['violations']:
            # only failures of this property count here (other properties have their own check)
            if not v['key'].upper().startswith(pid.upper()):
                continue
            if v['key'] in seen and len(seen) > 0 and sum(1 for x in out['violations'] if x['key'] == v['key']) >= 3:
                continue
            seen.add(v['key'])
            out['violations'].append({'engine': 'bx', 'key': v['key'], 'what': v['what'], 'obligation': 'bx::%s::%s' % (mode, v['key']), 'witness': v['witness'], 'seed': seed})
    return out


def replay_witness(pid, v):
    err = build()
    if err:
        print(err)
        return False
    env = dict(os.environ)
    if v.get('seed') is not None:
        env['VERIF_SEED'] = str(v['seed'])
    p = subprocess.run([BIN, 'replay', v['witness']], stdout=subprocess.PIPE, stderr=subprocess.PIPE, text=True, env=env)
    print(p.stdout[-3000:])
    return p.returncode == 1
