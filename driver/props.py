"""Per-property configuration: which engines/units decide which property."""

TRUSTED_COMMON = [
    'Verus 0.2026.09.13 + Z3 (soundness of the verifier and its vstd specifications of std)',
    'extraction rules R1..R10 of vx/rules.md (the verified text differs from /repo only by these)',
    'machine arithmetic: exec integers fixed width with overflow checked as in the debug profile; usize = 64 bit',
]
ASSUMPTIONS_COMMON = [
    'tracing macros and #[tracing::instrument] are dropped (R1): their argument expressions are not verified',
    'release-profile wrapping arithmetic is not what is verified (debug-profile overflow checks are)',
]
AMBIENT_DENY = ['time::Instant::now', 'SystemTime', 'rand::', 'std::env', 'thread::current', 'process::id', 'thread_rng']

PROPS = {}

PROPS['C14'] = {
    'level': 'proof',
    'vx': [{'unit': 'tcpbuffer'}],
    'bx': ['c14'],
    'rule': 'Verus verification conditions, one query per function/lemma of unit tcpbuffer.',
    'proved': ['push_data appends exactly the chunk', 'pull_data is exactly the abstract pull step (None iff no complete frame, buffer intact; Some = next frame, exactly it consumed)',
               'history theorem: for every frame list, chunking and push/pull interleaving the pulled sequence is a prefix of the frames sent and equals them once all bytes are pushed and a pull returns None'],
    'bounded': ['BX: randomised frame lists / chunkings against the real TcpBuffer (witness finder, labelled bounded)'],
    'trusted': ['byteorder BigEndian::read_u16 = big-endian byte arithmetic (shim, cross-checked by KX k_shim_read_u16)',
                '<[T]>::to_vec, Vec::extend(&[u8]) (assume_specification / axiom in vx/shims/std.rs)', 'vstd specs of Vec::len, slice split_at, slice index'],
    'assumptions': ['trace!() lines of pull_data dropped (R1)'],
}
NOT_APPLICABLE = {}

_PARSE_TRUST = ['byteorder BigEndian::{read_u16,read_u128,write_u16} = big-endian byte arithmetic (shims/bytes.rs; cross-checked by KX k_shim_*)',
                '<[T]>::to_vec, <[T]>::contains, [u8;N]==[u8;N] element-wise, slice len <= isize::MAX (shims/std.rs, shims/arrays.rs)',
                'Fingerprint::compute = uninterpreted spec_crc32 (crc crate trusted; bounded differential check only)',
                'Fingerprint::from_raw contract assumed in VX, discharged on the real code by KX harness k_fingerprint (bytewise_xor! is outside the Verus subset)']

PROPS['C02'] = {
    'level': 'proof',
    'vx': [{'unit': 'parse', 'functions': ['from_bytes', 'parse', 'padded_attr_len', 'padded_len', 'get_type', 'transaction_id', 'next', 'length', 'deref', 'try_from', 'data_length', 'new']}],
    'bx': ['c02'],
    'rule': 'Verus verification conditions, one query per extracted function / lemma of unit parse.',
    'proved': ['Message::from_bytes: Ok <==> wf_message(bytes) (spec predicate written from the statement), message == buffer',
               'error causes: <20 bytes Truncated{20,len}; bad top bits/cookie NotStun; declared>available Truncated{declared+20,len}; NotStun/FingerprintMismatch/AttributeAfter* only named truthfully',
               'get_type / transaction_id read the RFC fields; MessageAttributesIter::next yields exactly exposed(bytes) with type, length and value bytes of each TLV'],
    'bounded': ['raw_attribute / has_attribute / attribute (iterator adaptors find/any) : BX only', 'exact variant/type of interior rejections: BX differential against the reference decoder'],
    'trusted': _PARSE_TRUST,
}
PROPS['C17'] = {
    'level': 'proof',
    'vx': [{'unit': 'parse', 'functions': ['MessageHeader :: from_bytes', "Message<'a> :: from_bytes", 'MessageType :: from_bytes', 'data_length', 'try_from']}],
    'bx': ['c17'],
    'rule': 'Verus verification conditions of unit parse (header + from_bytes contracts) and the prefix lemma.',
    'proved': ['MessageHeader::from_bytes Ok <==> hdr_ok; fields equal RFC field extraction (same as full parse)',
               'from_bytes: len<20 ==> Truncated{20,len}; hdr_ok and declared+20>len ==> Truncated{declared+20,len}',
               'lemma_prefix_truncated: every strict prefix of a well-formed message is reported Truncated with expected 20 / exactly len(m)'],
    'bounded': [],
    'trusted': _PARSE_TRUST,
}
PROPS['C10'] = {
    'level': 'proof',
    'vx': [{'unit': 'parse', 'functions': ['next', "Message<'a> :: from_bytes", 'RawAttribute', 'padded']}],
    'bx': ['c10'],
    'rule': 'Verus verification conditions of unit parse (iterator contract against the exposed-stream spec).',
    'proved': ['MessageAttributesIter::next yields exactly exposed_from(bytes, 20, 0): everything up to and including the first integrity attribute, MI-SHA256 directly after MI, FINGERPRINT; hidden attributes are skipped',
               'lemma_exposed_prefix_stable: exposed attributes before the first integrity attribute depend only on the bytes before its end'],
    'bounded': ['lookups raw_attribute/has_attribute/attribute go through iterator adaptors: BX'],
    'trusted': _PARSE_TRUST,
}
PROPS['C09'] = {
    'level': 'proof',
    'vx': [{'unit': 'parse', 'functions': ["Message<'a> :: from_bytes", 'fingerprint']}],
    'bx': ['c09'],
    'rule': 'Verus verification conditions of unit parse; fp_ok clause of wf_message.',
    'proved': ['accepted buffer with FINGERPRINT at o: value == crc32(bytes[..o] with length field o+8-20) ^ 0x5354554e (fp_ok inside wf_message), and o+8 == len'],
    'bounded': ['Fingerprint::compute == CRC-32/ISO-HDLC (BX vs bitwise reference, KX bounded)', 'builder side add_fingerprint (BX)', 'all single-bit flips / bursts / byte substitutions on a corpus (BX)'],
    'trusted': _PARSE_TRUST,
}
PROPS['C01'] = {
    'level': 'proof',
    'vx': [{'unit': 'parse'}],
    'bx': ['c01'],
    'rule': 'Verus exec-mode VCs (index, slice, arithmetic overflow, unwrap, unreached, termination) of every extracted decoding function with precondition true on the bytes.',
    'proved': ['no panic / overflow / OOB / non-termination for AttributeHeader::parse, RawAttribute::from_bytes, MessageType::from_bytes, MessageHeader::from_bytes, Message::from_bytes, MessageAttributesIter::next for every byte string'],
    'bounded': ['check_attribute_types, Display/Debug, tracing argument expressions: BX only'],
    'trusted': _PARSE_TRUST,
}
