"""Per-property configuration: which engines/units decide which property."""

TRUSTED_COMMON = [
    'Verus 0.2026.09.13 + Z3 (soundness of the verifier and its vstd specifications of std)',
    'extraction rules R1..R10 of vx/rules.md (the verified text differs from /repo only by these)',
    'machine arithmetic: exec integers fixed width with overflow checked as in the debug profile; usize = 64 bit',
]
ASSUMPTIONS_COMMON = [
    'tracing macros and #[tracing::instrument] are dropped (R1): their argument expressions are not verified',
    'release-profile wrapping arithmetic is not what is verified (debug-profile overflow checks are)',
]
AMBIENT_DENY = ['time::Instant::now', 'SystemTime', 'rand::', 'std::env', 'thread::current', 'process::id', 'thread_rng']

PROPS = {}

PROPS['C14'] = {
    'level': 'proof',
    'vx': [{'unit': 'tcpbuffer'}],
    'bx': ['c14'],
    'rule': 'Verus verification conditions, one query per function/lemma of unit tcpbuffer.',
    'proved': ['push_data appends exactly the chunk', 'pull_data is exactly the abstract pull step (None iff no complete frame, buffer intact; Some = next frame, exactly it consumed)',
               'history theorem: for every frame list, chunking and push/pull interleaving the pulled sequence is a prefix of the frames sent and equals them once all bytes are pushed and a pull returns None'],
    'bounded': ['BX: randomised frame lists / chunkings against the real TcpBuffer (witness finder, labelled bounded)'],
    'trusted': ['byteorder BigEndian::read_u16 = big-endian byte arithmetic (shim, cross-checked by KX k_shim_read_u16)',
                '<[T]>::to_vec, Vec::extend(&[u8]) (assume_specification / axiom in vx/shims/std.rs)', 'vstd specs of Vec::len, slice split_at, slice index'],
    'assumptions': ['trace!() lines of pull_data dropped (R1)'],
}
NOT_APPLICABLE = {}

_PARSE_TRUST = ['byteorder BigEndian::{read_u16,read_u128,write_u16} = big-endian byte arithmetic (shims/bytes.rs; cross-checked by KX k_shim_*)',
                '<[T]>::to_vec, <[T]>::contains, [u8;N]==[u8;N] element-wise, slice len <= isize::MAX (shims/std.rs, shims/arrays.rs)',
                'Fingerprint::compute = uninterpreted spec_crc32 (crc crate trusted; bounded differential check only)',
                'Fingerprint::from_raw contract assumed in VX, discharged on the real code by KX harness k_fingerprint (bytewise_xor! is outside the Verus subset)']

PROPS['C02'] = {
    'level': 'proof',
    'vx': [{'unit': 'parse', 'functions': ['from_bytes', 'parse', 'padded_attr_len', 'padded_len', 'get_type', 'transaction_id', 'next', 'length', 'deref', 'try_from', 'data_length', 'new']}],
    'bx': ['c02'],
    'rule': 'Verus verification conditions, one query per extracted function / lemma of unit parse.',
    'proved': ['Message::from_bytes: Ok <==> wf_message(bytes) (spec predicate written from the statement), message == buffer',
               'error causes: <20 bytes Truncated{20,len}; bad top bits/cookie NotStun; declared>available Truncated{declared+20,len}; NotStun/FingerprintMismatch/AttributeAfter* only named truthfully',
               'get_type / transaction_id read the RFC fields; MessageAttributesIter::next yields exactly exposed(bytes) with type, length and value bytes of each TLV'],
    'bounded': ['raw_attribute / has_attribute / attribute (iterator adaptors find/any) : BX only', 'exact variant/type of interior rejections: BX differential against the reference decoder'],
    'trusted': _PARSE_TRUST,
}
PROPS['C17'] = {
    'level': 'proof',
    'vx': [{'unit': 'parse', 'functions': ['MessageHeader :: from_bytes', "Message<'a> :: from_bytes", 'MessageType :: from_bytes', 'data_length', 'try_from']}],
    'bx': ['c17'],
    'rule': 'Verus verification conditions of unit parse (header + from_bytes contracts) and the prefix lemma.',
    'proved': ['MessageHeader::from_bytes Ok <==> hdr_ok; fields equal RFC field extraction (same as full parse)',
               'from_bytes: len<20 ==> Truncated{20,len}; hdr_ok and declared+20>len ==> Truncated{declared+20,len}',
               'lemma_prefix_truncated: every strict prefix of a well-formed message is reported Truncated with expected 20 / exactly len(m)'],
    'bounded': [],
    'trusted': _PARSE_TRUST,
}
PROPS['C10'] = {
    'level': 'proof',
    'vx': [{'unit': 'parse', 'functions': ['next', "Message<'a> :: from_bytes", 'RawAttribute', 'padded']}],
    'bx': ['c10'],
    'rule': 'Verus verification conditions of unit parse (iterator contract against the exposed-stream spec).',
    'proved': ['MessageAttributesIter::next yields exactly exposed_from(bytes, 20, 0): everything up to and including the first integrity attribute, MI-SHA256 directly after MI, FINGERPRINT; hidden attributes are skipped',
               ],
    'bounded': ['lookups raw_attribute/has_attribute/attribute go through iterator adaptors: BX'],
    'trusted': _PARSE_TRUST,
}
PROPS['C09'] = {
    'level': 'proof',
    'vx': [{'unit': 'parse', 'functions': ["Message<'a> :: from_bytes", 'fingerprint']}],
    'bx': ['c09'],
    'rule': 'Verus verification conditions of unit parse; fp_ok clause of wf_message.',
    'proved': ['accepted buffer with FINGERPRINT at o: value == crc32(bytes[..o] with length field o+8-20) ^ 0x5354554e (fp_ok inside wf_message), and o+8 == len'],
    'bounded': ['Fingerprint::compute == CRC-32/ISO-HDLC (BX vs bitwise reference, KX bounded)', 'builder side add_fingerprint (BX)', 'all single-bit flips / bursts / byte substitutions on a corpus (BX)'],
    'trusted': _PARSE_TRUST,
}
PROPS['C01'] = {
    'level': 'proof',
    'vx': [{'unit': 'parse'}],
    'bx': ['c01'],
    'rule': 'Verus exec-mode VCs (index, slice, arithmetic overflow, unwrap, unreached, termination) of every extracted decoding function with precondition true on the bytes.',
    'proved': ['no panic / overflow / OOB / non-termination for AttributeHeader::parse, RawAttribute::from_bytes, MessageType::from_bytes, MessageHeader::from_bytes, Message::from_bytes, MessageAttributesIter::next for every byte string'],
    'bounded': ['check_attribute_types, Display/Debug, tracing argument expressions: BX only'],
    'trusted': _PARSE_TRUST,
}

_KX_TRUST = ['Kani 0.68 / CBMC 6.11 (soundness of the bounded model checker; loops unwound with unwinding assertions on)',
             'tracing macros are no-ops in the Kani build (kx/tracing-stub) - drops exactly what rule R1 drops']
_ATTR_K = ['k08_priority', 'k08_priority_new', 'k08_use_candidate', 'k08_ice_controlled', 'k08_ice_controlling', 'k08_ice_new',
           'k_fingerprint', 'k09_fingerprint_xor', 'k08_message_integrity', 'k08_userhash', 'k08_xor_mapped_decode',
           'k08_alternate_server_decode', 'k08_alternate_server_new', 'k08_password_algorithm', 'k08_error_code_pairs', 'k08_error_code_new', 'k_check_len']

PROPS['C19'] = {
    'level': 'proof',
    'vx': [{'unit': 'parse', 'functions': ['MessageType :: from_bytes', 'get_type', 'transaction_id', 'MessageHeader :: from_bytes', 'From<u128>']}],
    'kx': ['k19_class_method', 'k19_from_bytes_all', 'k19_tid_mask', 'k17_header_from_bytes'],
    'bx': ['c19'],
    'rule': 'Kani complete harnesses (loop-free / fixed trip count over full-domain symbolic inputs) + Verus VCs of unit parse.',
    'proved': ['all 4x4096 (class, method): type field == RFC 8489 s5 interleaving written bit by bit; class()/method() invert it; wire form round-trips',
               'all 65536 field values (and slice lengths 0..4): refused NotStun <=> top two bits set; every other value decodes to a unique (class, method)',
               'TransactionId::from(x) == x mod 2^96 for all u128; header decoder reads the id from bytes 8..20; Message::transaction_id reads bytes 8..20 (Verus)'],
    'bounded': ['header writer (MessageBuilder::write_into) places cookie and id: BX', 'generated ids fit in 96 bits: BX sampling (rand is outside every contract; follows from the mask)'],
    'trusted': _PARSE_TRUST + _KX_TRUST,
}
PROPS['C13'] = {
    'level': 'proof',
    'kx': ['k13_xor_v4', 'k13_xor_v6', 'k08_xor_mapped_decode'],
    'bx': ['c13'],
    'rule': 'Kani complete harnesses over all addresses x ports x transaction ids (bytewise_xor! loops have fixed trip counts 4/16, unwound with assertions).',
    'proved': ['IPv4: all 2^32 addr x 2^16 ports x 2^128 tid inputs: new(a,t).addr(t)==a; wire value == 0,1,port^0x2112,ip^cookie; wire round trip',
               'IPv6: all 2^128 addr x ports x tids: wire value ip ^ (cookie || tid); round trip; a different tid decodes to a different address',
               'decoder accepts exactly family 1 / 8 bytes and family 2 / 20 bytes of type 0x0020'],
    'bounded': [],
    'trusted': _KX_TRUST + ['SocketAddr equality is (ip, port); flowinfo/scope_id of IPv6 socket addresses are not carried by the wire format and are outside the property'],
}
PROPS['C16'] = {
    'level': 'exploration',
    'kx': ['k16_comprehension_required'],
    'bx': ['c16'],
    'rule': 'Kani complete harness for the classification; BX enumeration for check_attribute_types (iterator adaptors + MessageBuilder are outside both verifiers).',
    'proved': ['comprehension_required(t) <=> t < 0x8000 for all 65536 types (Kani, complete)'],
    'bounded': ['check_attribute_types verdict / response contents vs RFC 8489 s6.3.1 oracle: BX (bounded)'],
    'trusted': _KX_TRUST,
}
PROPS['C08'] = {
    'level': 'exploration',
    'kx': _ATTR_K,
    'bx': ['c08'],
    'rule': 'Kani complete harnesses for the ten fixed-size attribute types (symbolic type code, 0..=40 symbolic value bytes); BX for the nine variable-length types.',
    'proved': ['PRIORITY, USE-CANDIDATE, ICE-CONTROLLED, ICE-CONTROLLING, FINGERPRINT, MESSAGE-INTEGRITY, USERHASH, XOR-MAPPED-ADDRESS, ALTERNATE-SERVER, PASSWORD-ALGORITHM: decode Ok <=> RFC type code and RFC value encoding; other type => WrongAttributeImplementation; getters = encoded fields; encode = RFC layout; decode(encode(v)) = v; re-encode stable',
               'ERROR-CODE class/number arithmetic on all 65536 byte pairs; ErrorCode::new accepts exactly 300..=699', 'check_len for all lengths and range shapes'],
    'bounded': ['USERNAME, REALM, NONCE, SOFTWARE, ALTERNATE-DOMAIN, ERROR-CODE reason, UNKNOWN-ATTRIBUTES, PASSWORD-ALGORITHMS, MESSAGE-INTEGRITY-SHA256: BX, all lengths 0..=800 with ASCII / multi-byte UTF-8 / invalid UTF-8 fillers'],
    'trusted': _KX_TRUST,
}
PROPS['C12'] = {
    'level': 'exploration',
    'kx': ['k12_raw_attribute'] + [k for k in _ATTR_K if k not in ('k_check_len', 'k08_error_code_new')],
    'bx': ['c12'],
    'rule': 'Kani harnesses: helper check_writers (in-place writer vs RFC layout vs raw conversion, 0xAA-filled oversize buffer, every shorter buffer) on every decodable value of the fixed-size types; BX for variable-length types and builders.',
    'proved': ['fixed-size types: write_into == RFC layout == to_raw(); exactly padded_len bytes written, declared length == value length, padding zero, nothing beyond touched; every shorter destination => TooSmall{expected, actual}, destination untouched'],
    'bounded': ['raw attributes with value length 0..=8 (Kani, bounded)', 'variable-length attribute types 0..=763 B, MessageBuilder build/write_into/into_owned/clone: BX'],
    'trusted': _KX_TRUST,
}
