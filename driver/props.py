"""Per-property configuration: which engines/units decide which property."""

TRUSTED_COMMON = [
    'Verus 0.2026.09.13 + Z3 (soundness of the verifier and its vstd specifications of std)',
    'extraction rules R1..R12 of vx/rules.md (the verified text differs from /repo only by these); R11: the std iterator adaptors find / any / map / filter / collect / sum / fold are their documented defining loops over next()',
    'machine arithmetic: exec integers fixed width with overflow checked as in the debug profile; usize = 64 bit',
]
ASSUMPTIONS_COMMON = [
    'tracing macros and #[tracing::instrument] are dropped (R1): their argument expressions are not verified',
    'release-profile wrapping arithmetic is not what is verified (debug-profile overflow checks are)',
]
AMBIENT_DENY = ['time::Instant::now', 'SystemTime', 'rand::', 'std::env', 'thread::current', 'process::id', 'thread_rng']

PROPS = {}

PROPS['C14'] = {
    'level': 'proof',
    'vx': [{'unit': 'tcpbuffer'}],
    'bx': ['c14'],
    'rule': 'Verus verification conditions, one query per function/lemma of unit tcpbuffer.',
    'proved': ['push_data appends exactly the chunk', 'pull_data is exactly the abstract pull step (None iff no complete frame, buffer intact; Some = next frame, exactly it consumed)',
               'history theorem: for every frame list, chunking and push/pull interleaving the pulled sequence is a prefix of the frames sent and equals them once all bytes are pushed and a pull returns None'],
    'bounded': ['BX: randomised frame lists / chunkings against the real TcpBuffer (witness finder, labelled bounded)'],
    'trusted': ['byteorder BigEndian::read_u16 = big-endian byte arithmetic (shim, cross-checked by KX k_shim_read_u16)',
                '<[T]>::to_vec, Vec::extend(&[u8]) (assume_specification / axiom in vx/shims/std.rs)', 'vstd specs of Vec::len, slice split_at, slice index'],
    'assumptions': ['trace!() lines of pull_data dropped (R1)'],
}
NOT_APPLICABLE = {}

_PARSE_TRUST = ['byteorder BigEndian::{read_u16,read_u128,write_u16} = big-endian byte arithmetic (shims/bytes.rs; cross-checked by KX k_shim_*)',
                '<[T]>::to_vec, <[T]>::contains, [u8;N]==[u8;N] element-wise, slice len <= isize::MAX (shims/std.rs, shims/arrays.rs)',
                'Fingerprint::compute = uninterpreted spec_crc32 (crc crate trusted; bounded differential check only)',
                'Fingerprint::from_raw contract assumed in VX, discharged on the real code by KX harness k_fingerprint (bytewise_xor! is outside the Verus subset)']

PROPS['C02'] = {
    'level': 'proof',
    'vx': [{'unit': 'parse', 'functions': ['from_bytes', 'parse', 'padded_attr_len', 'padded_len', 'get_type', 'transaction_id', 'next', 'length', 'deref', 'try_from', 'data_length', 'new']},
           {'unit': 'parsecause', 'functions': ["Message<'a> :: from_bytes", 'lemma_tiles_extend', 'lemma_seen_extend', 'tiles']}],
    'kx': ['k02_lookups_small'],
    'bx': ['c02'],
    'rule': 'Verus verification conditions, one query per extracted function / lemma of unit parse.',
    'proved': ['Message::from_bytes: Ok <==> wf_message(bytes) (spec predicate written from the statement), message == buffer',
               'error causes: <20 bytes Truncated{20,len}; bad top bits/cookie NotStun; declared>available Truncated{declared+20,len}; NotStun/FingerprintMismatch/AttributeAfter* only named truthfully',
               '(unit parsecause: from_bytes extracted a second time with a witness contract) a rejection names its cause: AttributeAfterFingerprint(t) => t is the type of an attribute at a TLV walk position that is preceded by a FINGERPRINT at an earlier walk position; AttributeAfterIntegrity(t) => ... preceded by a MESSAGE-INTEGRITY(-SHA256); FingerprintMismatch => a 4-byte FINGERPRINT at a walk position whose value is not crc32(bytes before it, length field covering it) ^ 0x5354554e',
               'get_type / transaction_id read the RFC fields; MessageAttributesIter::next yields exactly exposed(bytes) with type, length and value bytes of each TLV'],
    'proved_extra': ['(rule R11) Message::{iter_attributes, raw_attribute, has_attribute, attribute::<A>()}: the lookup answers with the first attribute of the type in the exposed stream (type, declared length, value bytes); typed extraction decodes exactly that attribute and reports MissingAttribute exactly when none is exposed; cross-checked by BX and the Kani bounded harness k02_lookups_small (thorough tier)'],
    'bounded': ['which of several applicable causes is reported, and the byte counts of interior truncations: BX differential against the reference decoder'],
    'trusted': _PARSE_TRUST,
}
PROPS['C17'] = {
    'level': 'proof',
    'vx': [{'unit': 'parse', 'functions': ['MessageHeader :: from_bytes', "Message<'a> :: from_bytes", 'MessageType :: from_bytes', 'data_length', 'try_from']}],
    'bx': ['c17'],
    'rule': 'Verus verification conditions of unit parse (header + from_bytes contracts) and the prefix lemma.',
    'proved': ['MessageHeader::from_bytes Ok <==> hdr_ok; fields equal RFC field extraction (same as full parse)',
               'from_bytes: len<20 ==> Truncated{20,len}; hdr_ok and declared+20>len ==> Truncated{declared+20,len}',
               'lemma_prefix_truncated: every strict prefix of a well-formed message is reported Truncated with expected 20 / exactly len(m)'],
    'bounded': [],
    'trusted': _PARSE_TRUST,
}
PROPS['C10'] = {
    'level': 'proof',
    'vx': [{'unit': 'parse', 'functions': ['next', "Message<'a> :: from_bytes", 'RawAttribute', 'padded', 'iter_attributes', 'raw_attribute', 'has_attribute', "Message<'a> :: attribute"]}, {'unit': 'integrity', 'functions': ['validate_integrity']}],
    'bx': ['c10'],
    'rule': 'Verus verification conditions of unit parse (iterator contract against the exposed-stream spec).',
    'proved': ['MessageAttributesIter::next yields exactly exposed_from(bytes, 20, 0): everything up to and including the first integrity attribute, MI-SHA256 directly after MI, FINGERPRINT; hidden attributes are skipped',
               'lemma_exposed_split / lemma_exposed_after_integrity: every exposed attribute other than MESSAGE-INTEGRITY-SHA256 / FINGERPRINT lies before the end of the first integrity attribute (inside the bytes the checked HMAC covers)',
               'lemma_prefix_stable: two buffers that agree up to the end of the first integrity attribute expose the same attributes before it',
               '(unit integrity) validate_integrity checks an exposed integrity attribute whose HMAC input is the message prefix up to that attribute'],
    'bounded': ['BX: iteration and lookups against the exposure rule on all tail orders (cross-check and witness finder)'],
    'proved_extra': ['(rule R11) the lookups raw_attribute / has_attribute / attribute::<A>() answer from the exposed stream the iterator yields (first attribute of the type): nothing hidden is reachable through them'],
    'trusted': _PARSE_TRUST,
}
PROPS['C09'] = {
    'level': 'proof',
    'vx': [{'unit': 'parse', 'functions': ["Message<'a> :: from_bytes", 'fingerprint']},
           {'unit': 'builder', 'functions': ['add_fingerprint', 'add_fingerprint_unchecked', 'theorem_sealed_fingerprint', 'theorem_fingerprinted_builder_parses', 'lemma_blist_push', 'lemma_last_tlv', 'Fingerprint :: new']}],
    'bx': ['c09'],
    'rule': 'Verus verification conditions of unit parse; fp_ok clause of wf_message.',
    'proved': ['accepted buffer with FINGERPRINT at o: value == crc32(bytes[..o] with length field o+8-20) ^ 0x5354554e (fp_ok inside wf_message), and o+8 == len',
               '(unit builder) builder side: add_fingerprint(_unchecked) appends a FINGERPRINT whose value is Fingerprint::compute of build() with the header length field increased by 8, xor 0x5354554e; theorem_sealed_fingerprint: the serialisation of the sealed builder then satisfies the parser-side fp_ok at that offset and ends there'],
    'bounded': ['Fingerprint::compute == CRC-32/ISO-HDLC (BX vs bitwise reference, KX bounded)', 'Fingerprint::to_raw / write_into (bytewise_xor! macro): Kani complete', 'all single-bit flips / bursts / byte substitutions on a corpus (BX)'],
    'trusted': _PARSE_TRUST,
}
PROPS['C01'] = {
    'level': 'proof',
    'vx': [{'unit': 'parse'}, {'unit': 'integrity'}, {'unit': 'attrs'}, {'unit': 'responses', 'functions': ['check_attribute_types', 'comprehension_required', 'iter_attributes']}],
    'bx': ['c01'],
    'rule': 'Verus exec-mode VCs (index, slice, arithmetic overflow, unwrap, unreached, termination) of every extracted decoding function with precondition true on the bytes.',
    'proved': ['(unit attrs) the typed decoders of USERNAME REALM NONCE SOFTWARE ALTERNATE-DOMAIN ERROR-CODE PASSWORD-ALGORITHM(S) PRIORITY USE-CANDIDATE ICE-CONTROLLED ICE-CONTROLLING USERHASH MESSAGE-INTEGRITY(-SHA256) are total on every raw attribute (no index/slice/arith/unwrap failure, loops terminate); the remaining five (FINGERPRINT, XOR-MAPPED-ADDRESS, ALTERNATE-SERVER: Kani complete; UNKNOWN-ATTRIBUTES: BX) are in C08',
               'no panic / overflow / OOB / non-termination for AttributeHeader::parse, RawAttribute::from_bytes, MessageType::from_bytes, MessageHeader::from_bytes, Message::from_bytes, MessageAttributesIter::next for every byte string',
               'Message::validate_integrity on every accepted message and every credentials value: the 16-bit offset arithmetic cannot overflow, slices are in bounds, try_into().unwrap() is on a 20-byte slice, unreachable!() is unreachable, the scan terminates; MessageIntegrity / MessageIntegritySha256 / check_type_and_len decoders total'],
    'bounded': ['Display/Debug, tracing argument expressions: BX only; check_attribute_types on accepted NON-requests (known finding D8): BX'],
    'proved_extra': ['(rule R11) lookups raw_attribute / has_attribute / attribute::<A>() and attribute-type policing of accepted requests (check_attribute_types): no panic, overflow, out-of-bounds index or non-termination (units parse, responses)'],
    'trusted': _PARSE_TRUST,
}

_KX_TRUST = ['Kani 0.68 / CBMC 6.11 (soundness of the bounded model checker; loops unwound with unwinding assertions on)',
             'tracing macros are no-ops in the Kani build (kx/tracing-stub) - drops exactly what rule R1 drops']
_ATTR_K = ['k08_priority', 'k08_priority_new', 'k08_use_candidate', 'k08_ice_controlled', 'k08_ice_controlling', 'k08_ice_new',
           'k_fingerprint', 'k09_fingerprint_xor', 'k08_message_integrity', 'k08_userhash', 'k08_xor_mapped_decode',
           'k08_alternate_server_decode', 'k08_alternate_server_new', 'k08_password_algorithm', 'k08_error_code_pairs', 'k08_error_code_new', 'k_check_len', 'k08_unknown_attributes_small']

PROPS['C19'] = {
    'level': 'proof',
    'vx': [{'unit': 'parse', 'functions': ['MessageType :: from_bytes', 'get_type', 'transaction_id', 'MessageHeader :: from_bytes', 'From<u128>']},
           {'unit': 'builder', 'functions': ['MessageType :: write_into', "MessageBuilder<'a> :: write_into", 'from_class_method', 'MessageType :: class', 'MessageType :: method', 'MessageType :: has_class', 'MessageType :: is_response', 'MessageType :: has_method', 'MessageType :: to_bytes', 'MessageClass :: is_response', 'to_bits', 'lemma_type_roundtrip', 'lemma_method_idem', ':: is_response', ':: has_method', ':: transaction_id', ':: has_class']}],
    'kx': ['k19_class_method', 'k19_from_bytes_all', 'k19_tid_mask', 'k17_header_from_bytes', 'k_shim_u128', 'k03_build_small'],
    'bx': ['c19'],
    'rule': 'Kani complete harnesses (loop-free / fixed trip count over full-domain symbolic inputs) + Verus VCs of unit parse.',
    'proved': ['all 4x4096 (class, method): type field == RFC 8489 s5 interleaving written bit by bit; class()/method() invert it; wire form round-trips',
               'all 65536 field values (and slice lengths 0..4): refused NotStun <=> top two bits set; every other value decodes to a unique (class, method)',
               'TransactionId::from(x) == x mod 2^96 for all u128; header decoder reads the id from bytes 8..20; Message::transaction_id reads bytes 8..20 (Verus)',
               '(Verus, unit builder) MessageType::from_class_method == class bits | method bits of RFC 8489 s5, class()/method() read them back (lemma_type_roundtrip: class_of(from(c, m)) == c, method_of(from(c, m)) == m & 0xfff, top two bits zero) - the same facts Kani checks exhaustively',
               '(Verus, unit builder) MessageBuilder::write_into places the type field in bytes 0..2, the magic cookie in 4..8 and the low 96 bits of the transaction id big-endian in 8..20 ([C19.header]); MessageType::write_into'],
    'bounded': ['generated ids fit in 96 bits: BX sampling (rand is outside every contract; follows from the mask)'],
    'trusted': _PARSE_TRUST + _KX_TRUST,
}
PROPS['C13'] = {
    'level': 'proof',
    'kx': ['k13_xor_v4', 'k13_xor_v6', 'k08_xor_mapped_decode'],
    'bx': ['c13'],
    'rule': 'Kani complete harnesses over all addresses x ports x transaction ids (bytewise_xor! loops have fixed trip counts 4/16, unwound with assertions).',
    'proved': ['IPv4: all 2^32 addr x 2^16 ports x 2^128 tid inputs: new(a,t).addr(t)==a; wire value == 0,1,port^0x2112,ip^cookie; wire round trip',
               'IPv6: all 2^128 addr x ports x tids: wire value ip ^ (cookie || tid); round trip; a different tid decodes to a different address',
               'decoder accepts exactly family 1 / 8 bytes and family 2 / 20 bytes of type 0x0020'],
    'bounded': [],
    'trusted': _KX_TRUST + ['SocketAddr equality is (ip, port); flowinfo/scope_id of IPv6 socket addresses are not carried by the wire format and are outside the property'],
}
PROPS['C16'] = {
    'technique': 'contract-based deductive verification: Verus contract of Message::check_attribute_types against the RFC 8489 s6.3.1 verdict (iterator chains replaced by their defining loops, rule R11), response constructors, writers, build() and the builder-to-parser theorem; Kani complete harnesses for the classification and the SOFTWARE literal; bounded stand-in as cross-check',
    'level': 'proof',
    'vx': [{'unit': 'responses', 'functions': ['unknown_attributes', 'bad_request', 'builder_error', 'builder_success', ":: builder", ':: class', ':: method', ':: has_class', 'from_class_method', 'to_bits',
                                             'lemma_type_roundtrip', 'lemma_method_idem', 'lemma_literals', 'ErrorCode :: new', 'UnknownAttributes :: new', 'add_attribute', "MessageBuilder<'a> :: into_owned", 'get_type', 'transaction_id', 'theorem_unsealed_builder_parses', 'theorem_builder_wellformed', 'lemma_unsealed_ok', 'lemma_blayout_tail_ok', 'lemma_holds_push', 'lemma_holds_congruent',
                                             'check_attribute_types', 'comprehension_required', 'iter_attributes', 'lemma_unsupported_len', 'lemma_exposed_len']},
           {'unit': 'parse', 'functions': ['next', 'iter_attributes', "Message<'a> :: from_bytes"]},
           {'unit': 'writers_lists', 'functions': ['ErrorCode :: to_raw', 'UnknownAttributes :: to_raw', 'ErrorCode :: write_into_unchecked', 'UnknownAttributes :: write_into_unchecked', 'ErrorCode :: length', 'UnknownAttributes :: length', 'write_into_data', 'ErrorCode :: get_type', 'UnknownAttributes :: get_type']},
           {'unit': 'attrs', 'functions': ['Software :: to_raw', 'Software :: length', 'Software :: get_type']}],
    'kx': ['k16_comprehension_required', 'k16_software_literal'],
    'bx': ['c16'],
    'rule': 'Verus verification conditions of unit responses (policing verdict + response constructors over the builder contracts) and of the iterator in unit parse; Kani complete harness for the classification; BX enumeration as bounded cross-check and witness finder.',
    'proved': ['comprehension_required(t) <=> t < 0x8000 for all 65536 types (Kani, complete)',
               '(Verus, unit responses = the builder contracts + the two constructors) response construction: for a request src, Message::bad_request(src) / unknown_attributes(src, types) return a builder with class error, the method and the transaction id of src (type field without the top bits), whose attributes are exactly SOFTWARE "stun-types", ERROR-CODE 400 "Bad Request" resp. 420 "Unknown Attributes" (value: 00 00 class number + text) and - unless the list is empty - UNKNOWN-ATTRIBUTES listing exactly the given types in the given order; builder_error / builder_success / builder; the panic! of builder_error/builder_success is unreachable for requests (documented precondition; D8 is the known finding where check_attribute_types violates it)',
               '(Verus) MessageType::{from_class_method, class, method, has_class} against the RFC 8489 s5 bit layout, with the round-trip lemma; Message::{class, method, has_class, get_type, transaction_id}',
               '(Verus, rule R11: the four iterator chains of Message::check_attribute_types desugared to their defining loops, closures verbatim) the verdict for every accepted request and all supported / required lists of any length: 420 listing exactly unsupported_of(exposed stream) - the exposed types below 0x8000 that are not in `supported`, in message order - if that list is not empty; otherwise 400 if some required type is not exposed; otherwise None; every response has class error, the method and id of the request, no sealing attribute; no panic, overflow or non-termination (the iterator contract is the one proved in unit parse)',
               '(Verus) build() / byte_len() of the response builder are proved (unit builder), so with theorem_unsealed_builder_parses the response bytes satisfy wf_message, for which Message::from_bytes is proved to answer Ok'],
    'bounded': ['BX against an RFC 8489 s6.3.1 oracle, end to end through build() and the parser (cross-check and witness finder)',
                'Software::new for texts other than the literal "stun-types" (str::len has no usable vstd specification): BX (C08)'],
    'trusted': _KX_TRUST + ['mirror impls of AttributeWrite for Software / ErrorCode / UnknownAttributes in unit builder (value functions as proved in units writers / attrs)', 'smallvec::smallvec![] stand-in (empty list)'],
}
PROPS['C08'] = {
    'technique': 'contract-based deductive verification: Verus contracts on 15 typed decoders (values of any length), all encoders / raw conversions / constructors (rules R13, R14) and decode-encode round-trip theorems; Kani complete harnesses for the fixed-size types; bounded stand-in as cross-check',
    'level': 'proof',
    'vx': [{'unit': 'attrs'}, {'unit': 'integrity', 'functions': ['try_from', 'check_type_and_len', 'hmac']}, {'unit': 'writers'}, {'unit': 'writers_lists'}],
    'kx': _ATTR_K,
    'bx': ['c08'],
    'rule': 'Verus verification conditions of units attrs / writers / writers_lists (14 + 1 typed decoders, encoders, constructors, round-trip theorems, values of any length); Kani complete harnesses for the ten fixed-size attribute types (symbolic type code, 0..=40 symbolic value bytes); BX as bounded cross-check.',
    'proved': ['PRIORITY, USE-CANDIDATE, ICE-CONTROLLED, ICE-CONTROLLING, FINGERPRINT, MESSAGE-INTEGRITY, USERHASH, XOR-MAPPED-ADDRESS, ALTERNATE-SERVER, PASSWORD-ALGORITHM: decode Ok <=> RFC type code and RFC value encoding; other type => WrongAttributeImplementation; getters = encoded fields; encode = RFC layout; decode(encode(v)) = v; re-encode stable',
               'ERROR-CODE class/number arithmetic on all 65536 byte pairs; ErrorCode::new accepts exactly 300..=699', 'check_len for all lengths and range shapes',
               '(Verus, unit attrs, value strings of ANY length) USERNAME / REALM / NONCE / SOFTWARE / ALTERNATE-DOMAIN: accepted <=> type code, length limit (513 / 763 / none), valid UTF-8; the text encodes to exactly the value bytes. ERROR-CODE: accepted <=> 4..=767 bytes, class 3..6, number <= 99, UTF-8 reason; code and reason exposed. PASSWORD-ALGORITHM(S): accepted <=> positive multiple of 4, every entry algorithm 1|2 with empty parameters; list exposed in order. PRIORITY, USE-CANDIDATE, ICE-CONTROLLED/-CONTROLLING, USERHASH, MESSAGE-INTEGRITY(-SHA256) also in Verus; wrong type => WrongAttributeImplementation',
               '(Verus, unit writers) ERROR-CODE encodes as 00 00 class=code/100 number=code%100 + UTF-8 reason; UNKNOWN-ATTRIBUTES as the listed types, 16 bits big-endian, in order (list of ANY length); PASSWORD-ALGORITHMS as (algorithm, 0) entries in order (list of ANY length); length() of the three under the no-overflow type invariant len_ok',
               '(Verus, unit attrs, spec level over the two contracts) decode(encode(v)) = v: theorem_text_roundtrip for the five text attributes (the raw form of every in-limit text satisfies the decoder acceptance condition, and any result the decoder may return for it is the original text - UTF-8 encoding is injective), theorem_error_code_roundtrip for ERROR-CODE (codes 300..=699, reasons up to 763 bytes), theorem_u32_roundtrip / theorem_u64_roundtrip (unit writers) for PRIORITY and ICE-CONTROLLED/-CONTROLLING, theorem_password_algorithms_roundtrip + lemma_algos_entry (the written list satisfies the decoder acceptance condition and its k-th wire entry names the k-th algorithm); getters of every Verus-decoded type return the decoded field',
               '(Verus) encode side within reach: RawAttribute::new; USERNAME/REALM/NONCE/SOFTWARE get_type, length() == UTF-8 byte length, to_raw() carries the type code and exactly the UTF-8 bytes, getters return the text'],
    'proved_extra': ['(unit writers_lists, rule R13 + trusted ChunksExact specification) UNKNOWN-ATTRIBUTES decoder: accepted <=> type 0x000A and an even number of value bytes; types_bytes(decoded list) == value bytes (re-encoding is stable); theorem_unknown_attributes_roundtrip: the encoding determines the list, so decode(encode(l)) == l',
                     '(unit attrs, rule R14: `s.len()` of a &str replaced by its definition `s.as_bytes().len()`) constructors Username::new (513), Realm::new / Nonce::new / Software::new (763): Ok <=> the UTF-8 encoding of the text has at most that many bytes, the text is stored unchanged, otherwise TooLarge with the limit and the actual size; AlternateDomain::new stores the text'],
    'bounded': ['BX: all lengths 0..=800 with ASCII / multi-byte UTF-8 / invalid UTF-8 fillers for every variable-length type, Kani bounded harness for UNKNOWN-ATTRIBUTES values of 0..=8 bytes (cross-checks of the trusted ChunksExact / String / str specifications; witness finders)', 'not judged by any engine (RFC text ambiguous): PASSWORD-ALGORITHM value lengths 8, 12, .. whose tail the decoder ignores'],
    'trusted': _KX_TRUST,
}
PROPS['C12'] = {
    'level': 'exploration',
    'trusted_extra': ['sub-slice write shims slice_copy_at / slice_fill_at / be_write_uN_at_slice (vx/shims/slices.rs; cross-checked by KX k_shim_slices), String::as_bytes/len = UTF-8 encoding (vx/shims/string.rs)'],
    'vx': [{'unit': 'writers'}, {'unit': 'writers_lists'}, {'unit': 'attrs', 'functions': ['to_raw', 'length', 'get_type', "RawAttribute<'a> :: new", 'padded']}, {'unit': 'builder', 'functions': ['write_into', 'into_owned', 'to_owned', 'lemma_layout_congruent', 'theorem_same_contents_same_bytes']}],
    'kx': ['k_shim_slices', 'k_shim_write_u16', 'k_shim_u128', 'k03_build_small'] + ['k12_raw_attribute'] + [k for k in _ATTR_K if k not in ('k_check_len', 'k08_error_code_new', 'k08_unknown_attributes_small')],
    'bx': ['c12'],
    'rule': 'Kani harnesses: helper check_writers (in-place writer vs RFC layout vs raw conversion, 0xAA-filled oversize buffer, every shorter buffer) on every decodable value of the fixed-size types; BX for variable-length types and builders.',
    'proved': ['(Verus, unit writers, values of ANY length) AttributeWriteExt::write_into: destination shorter than the padded length => Err(TooSmall{expected: padded, actual}) and nothing written; otherwise exactly the padded TLV (type, declared length == value length, value, zero padding) and nothing beyond it is touched, the padded length returned',
               '(Verus) write_into_unchecked == RFC TLV layout for raw attributes, USERNAME, REALM, NONCE, SOFTWARE, ALTERNATE-DOMAIN, MESSAGE-INTEGRITY, MESSAGE-INTEGRITY-SHA256 (type invariant: multiple of 4), USERHASH, USE-CANDIDATE, PRIORITY, ICE-CONTROLLED, ICE-CONTROLLING, ERROR-CODE, UNKNOWN-ATTRIBUTES and PASSWORD-ALGORITHMS (lists of any length; helper writers write_into_data / write_data_into_unchecked / PasswordAlgorithmValue::write under contract); AttributeHeader::write_into, write_header(_unchecked)',
               '(Verus) RawAttribute::to_bytes == the same padded TLV; to_raw() of the string types carries the type and exactly the value bytes (unit attrs) - so in-place writing and raw conversion + serialisation give identical bytes',
               '(Kani, complete) fixed-size types incl. FINGERPRINT, XOR-MAPPED-ADDRESS, ALTERNATE-SERVER, PASSWORD-ALGORITHM: write_into == RFC layout == to_raw(); every shorter destination => TooSmall, destination untouched',
               '(Verus, unit builder, attribute lists of ANY length) MessageBuilder::write_into: a destination shorter than byte_len() => Err(TooSmall{expected: byte_len, actual}) and nothing written; an exact or larger one receives header + TLVs, the length is reported and nothing beyond it is touched',
               '(Verus, unit writers / attrs) to_raw() of ERROR-CODE, UNKNOWN-ATTRIBUTES, PASSWORD-ALGORITHMS (lists of any length; RawAttribute::new_owned) and of the five string types has the same type and exactly the value bytes of the in-place writer - with RawAttribute::to_bytes == tlv_bytes this is "writing in place and converting to raw and serialising give the same bytes" for 8 variable-length types + raw; the fixed-size types by Kani',
               '(Verus, unit builder) borrowed -> owned: Data::into_owned, DataSlice::to_owned, RawAttribute::into_owned keep header and value bytes; AttrOrRaw::into_owned turns a typed attribute into a raw one of the same type and value (over the to_raw contract); MessageBuilder::into_owned (into_iter().map().collect(), specified by vstd) keeps header fields and, element by element in order, type and value bytes; lemma_layout_congruent / theorem_same_contents_same_bytes: such a builder has the same layout and the same bytes() - so write_into after into_owned() writes identical bytes'],
    'proved_extra': ['(rule R11) MessageBuilder::build() == the bytes write_into() writes, byte_len() == their length (iterator map/sum replaced by its defining loop; precondition: the total size fits the machine word)'],
    'bounded': ['MessageBuilder::clone() (derived; Verus gives derived Clone of non-Copy types no specification): BX', 'clone (dyn AttributeWrite -> to_raw): BX'],
    'trusted': _KX_TRUST,
}

_AGENT_TRUST = ['BTreeMap::values_mut / ValuesMut::next (shims/btree_values_mut.rs): trusted axioms - the iterator hands out a mutable reference to the value of each not yet visited key, exactly once; the map after the borrow is the map before it with the values written through those references (prophetic abstract state, resolved by Verus has_resolved when the iterator dies, the pattern vstd uses for hash-map Entry); the visiting order is not specified', 'rule R13: a `for` loop is its Rust-reference definition loop { match it.next() { None => break, Some(x) => body } }', 'Option::map_or, Result::and_then (shims/std.rs)', 'vstd specifications of BTreeMap (insert/remove/get/get_mut/contains_key) and HashSet (insert/contains) with the key-model axioms for TransactionId (derived Ord) and SocketAddr',
                'Instant/Duration as an integer nanosecond axis (shims/time.rs: Instant + Duration, Duration * u32, Duration + Duration, as_millis, Duration::ZERO, 2u32.pow(e) for e < 32 are the mathematical operations within stated bounds); cross-checked against real Timespec arithmetic by KX k06_request_poll (thorough) and by BX on the configuration grid',
                'dependency stand-ins (shims/deps_agent.rs): MessageBuilder::{build,transaction_id,has_class,has_attribute}, Message::{is_response,transaction_id,validate_integrity} are uninterpreted - the agent is verified for whatever they return',
                'DataSlice::to_owned copies the bytes (external_body: Box<[u8]>::from(&[u8]) has no vstd spec); tracing macros dropped (R1)']
_AGENT_FNS_ALL = None
PROPS['C05'] = {
    'technique': 'contract-based deductive verification: Verus whole-view postconditions on every public StunAgent / StunRequestMut operation incl. StunAgent::poll (for-loop replaced by its definition, rule R13, over trusted BTreeMap::values_mut axioms), representation invariant, exactly-once theorem by induction over the postconditions; bounded stand-in as cross-check',
    'level': 'proof',
    'vx': [{'unit': 'agent'}],
    'kx': ['k06_request_poll'],
    'bx': ['c05'],
    'rule': 'Verus VCs of unit agent: whole-view postconditions of every public operation incl. StunAgent::poll (rule R13) and the exactly-once theorem over them; BX as bounded cross-check and witness finder.',
    'proved': ['send: duplicate id => AlreadyInProgress and the map is unchanged; fresh id => inserted; non-requests leave the map unchanged',
               'handle_stun: unknown id => Drop, nothing changes; delivered => id was outstanding and is removed; Drop => whole map unchanged (=~=)',
               'request_transaction(t).is_some() <=> t outstanding; cancel sets exactly the two flags of that transaction',
               'StunRequestState::poll: Cancelled iff flags, TimedOut/WaitUntil/SendData per schedule; nothing but (timeout_i, last_send_time) changes',
               'theorem_exactly_once / lemma_not_outstanding_stays: between two completions of an id there is a successful send of it; while not outstanding no transmission, delivery or completion for it occurs',
               '(rules R13 + trusted ValuesMut axioms, shims/btree_values_mut.rs) StunAgent::poll for any number of outstanding transactions: WaitUntil(t) iff every outstanding transaction answers WaitUntil - then nothing changes and t is the earliest of their due instants; SendData iff it carries byte-for-byte the captured request and 5-tuple of an outstanding transaction whose verdict is `send`, only that transaction\'s schedule position and last transmission instant change; TransactionCancelled(k) / TransactionTimedOut(k) iff k is outstanding with that verdict, and exactly k is removed; validated peers, configuration and the representation invariant are kept'],
    'bounded': ['(StunAgent::poll is PROVED since the third session; cross-check of the trusted ValuesMut axioms and of the whole-history statement:) BX, step by step against the abstract agent - EXHAUSTIVELY for every call history of length <= 4 (quick) / <= 5 (thorough, UDP and TCP) over a 13-operation alphabet (two transactions, polls early/exact/late, three kinds of response, cancel, cancel_retransmissions, configure of either transaction, set credentials), plus random histories of 3..14 (every 50th: 200) operations over the full alphabet'],
    'trusted': _AGENT_TRUST + _KX_TRUST,
}
PROPS['C06'] = {
    'technique': 'contract-based deductive verification: Verus contracts on StunRequestState::{new,poll}, StunRequestMut::{configure_timeout (rule R11), cancel_retransmissions}, StunAgent::poll (rule R13) with the schedule as abstract state; lemmas for the default schedule numbers and the WaitUntil law; Kani cross-check of the time axioms (thorough); bounded stand-in as cross-check',
    'level': 'proof',
    'vx': [{'unit': 'agent', 'functions': ['StunRequestState :: poll', 'StunRequestState :: new', 'cancel_retransmissions', 'impl StunAgent :: send', 'mut_request_state', 'theorem_default_schedule_numbers', 'configure_timeout', 'lemma_pow2_le', 'lemma_pow2_8', 'lemma_mul_bound', 'lemma_geo_step', 'impl StunAgent :: poll', 'lemma_wait_until_law', 'into_owned']}],
    'kx': ['k06_request_poll'],
    'bx': ['c06'],
    'rule': 'Verus VCs of StunRequestState::{new,poll} for schedules of any length and of StunRequestMut::configure_timeout (rule R11); BX for the agent-level minimum.',
    'proved': ['StunRequestState::new: UDP schedule [500,1000,2000,4000,8000,16000] + 8000 ms, TCP [] + 39500 ms',
               'poll: WaitUntil(last_send + schedule[i]) iff now is earlier, state unchanged (so polling early again gives the same t); due => SendData with last_send := now, i := i+1; past last_send + last_timeout after the final transmission => TimedOut; nothing transmitted once send_cancelled',
               'cancel_retransmissions sets exactly send_cancelled of that transaction',
               'theorem_default_schedule_numbers: with the defaults that new installs and the due rule of poll, on-time service transmits at 0, 0.5, 1.5, 3.5, 7.5, 15.5, 31.5 s and times out at 39.5 s; each interval doubles'],
    'proved_extra': ['(rule R11: `(0..retransmits).map(..).collect()` and `.fold(..)` replaced by their defining loops) StunRequestMut::configure_timeout for rto <= 60 s, retransmits <= 8, last timeout <= 60 s: UDP schedule of exactly `retransmits` entries, the i-th being initial_rto * 2^i in whole milliseconds, final timeout = last_retransmit_timeout; TCP: empty schedule and timeout = last_retransmit_timeout + initial_rto * (2^retransmits - 1); nothing else of the transaction (position in the schedule, last transmission instant, flags, message, addresses) and no other transaction changes; Duration arithmetic through trusted axioms (shims/time.rs)',
                     'poll is verified without any bound on the schedule position, so also for a transaction whose schedule was shortened below its position by configure_timeout'],
    'proved_extra2': ['(rules R13 + trusted ValuesMut axioms, shims/btree_values_mut.rs) StunAgent::poll for any number of outstanding transactions: WaitUntil(t) iff every outstanding transaction answers WaitUntil - then nothing changes and t is the earliest of their due instants; SendData iff it carries byte-for-byte the captured request and 5-tuple of an outstanding transaction whose verdict is `send`, only that transaction\'s schedule position and last transmission instant change; TransactionCancelled(k) / TransactionTimedOut(k) iff k is outstanding with that verdict, and exactly k is removed; validated peers, configuration and the representation invariant are kept', 'lemma_wait_until_law: after WaitUntil(t) with no call in between, an earlier poll finds every transaction waiting for the same instants (so it answers the same t without an event) and a poll at or after t finds a transaction that needs service (so it yields an event)'],
    'bounded': ['configure_timeout: also BX exhaustive over rto x retransmits 0..=8 x last timeout grid (cross-check of the Duration axioms)', '(the agent-level minimum and the WaitUntil law are PROVED since the third session) cross-check by BX: StunAgent::poll minimum over transactions / event at t (incl. the generic law: after WaitUntil(t) an earlier poll repeats t without an event, a poll at or after t yields one): BX with 1..3 concurrent transactions, exhaustive small-scope histories + random ones'],
    'trusted': _AGENT_TRUST + _KX_TRUST,
}
PROPS['C07'] = {
    'level': 'proof',
    'vx': [{'unit': 'agent', 'functions': ['handle_stun', 'take_outstanding_request', 'validated_peer', 'StunRequestState :: new', 'set_remote_credentials', 'set_local_credentials']}],
    'bx': ['c07'],
    'rule': 'Verus VCs of handle_stun and StunRequestState::new in unit agent.',
    'proved': ['StunResponse => transaction outstanding and (request_had_credentials => remote credentials set and validate_integrity(msg, them) is Ok)',
               'had credentials and (no remote credentials or validation Err) => Drop and the whole abstract state (every ReqView incl. timer, peer set) unchanged; no credentials => delivered without validation',
               'request_had_credentials <=> builder has MESSAGE-INTEGRITY or MESSAGE-INTEGRITY-SHA256',
               'set_remote_credentials / set_local_credentials change exactly the field they name (the credentials handle_stun validates against are the ones handed over last); transactions, peers and configuration are untouched'],
    'bounded': ['end to end with real HMACs (meaning of validate_integrity is C04): BX'],
    'trusted': _AGENT_TRUST,
}
PROPS['C15'] = {
    'level': 'proof',
    'vx': [{'unit': 'agent', 'functions': ['handle_stun', 'validated_peer', 'is_validated_peer', 'impl StunAgent :: send', 'take_outstanding_request', 'cancel', 'mut_request_state', 'theorem_peers', 'set_remote_credentials', 'set_local_credentials', 'mut_request_transaction', 'impl StunAgent :: poll']}],
    'bx': ['c15'],
    'rule': 'Verus VCs of unit agent: whole-set postconditions on validated_peers and theorem_peers.',
    'proved': ['peers\' == peers + {from} exactly on IncomingStun / StunResponse exits; peers unchanged on Drop, in send, cancel, cancel_retransmissions, take_outstanding_request',
               'is_validated_peer(a) <=> a in peers', 'theorem_peers: monotone; validated exactly by an Incoming/Deliver event from that address'],
    'bounded': ['BX agent histories (cross-check)'],
    'proved_extra': ['StunAgent::poll leaves the validated-peer set unchanged (postcondition, rule R13)'],
    'trusted': _AGENT_TRUST,
}
PROPS['C18'] = {
    'technique': 'contract-based deductive verification: Verus contracts (bytes captured once, frame conditions on the 5-tuple, StunAgent::poll forwards the Transmit of an outstanding transaction unchanged: rule R13); bounded stand-in as cross-check',
    'level': 'proof',
    'vx': [{'unit': 'agent', 'functions': ['StunRequestState :: new', 'StunRequestState :: poll', 'impl StunAgent :: send', 'send_data', 'Transmit', 'peer_address', 'request_state', 'into_owned', 'to_owned', 'deref', 'impl StunAgent :: poll']}],
    'kx': ['k06_request_poll'],
    'bx': ['c18'],
    'rule': 'Verus VCs of unit agent (bytes captured once, SendData carries them unchanged with the same 5-tuple).',
    'proved': ['StunRequestState::new: bytes == build(request), to/from/transport as given', 'poll: SendData == (bytes, transport, from, to); these fields never change',
               'send: returns Transmit(build(msg), transport, local_addr, to) for requests and non-requests; non-requests leave no transaction', 'peer_address == out[t].to'],
    'bounded': ['BX agent histories (cross-check of the trusted ValuesMut axioms; witness finder)'],
    'proved_extra': ['(rules R13 + trusted ValuesMut axioms, shims/btree_values_mut.rs) StunAgent::poll for any number of outstanding transactions: WaitUntil(t) iff every outstanding transaction answers WaitUntil - then nothing changes and t is the earliest of their due instants; SendData iff it carries byte-for-byte the captured request and 5-tuple of an outstanding transaction whose verdict is `send`, only that transaction\'s schedule position and last transmission instant change; TransactionCancelled(k) / TransactionTimedOut(k) iff k is outstanding with that verdict, and exactly k is removed; validated peers, configuration and the representation invariant are kept'],
    'trusted': _AGENT_TRUST + _KX_TRUST,
}
PROPS['C20'] = {
    'level': 'exploration',
    'vx': [{'unit': 'agent'}],
    'bx': ['c20'],
    'rule': 'closed-world Verus verification of agent.rs functions (a call to an unspecified function is an unsupported construct; ambient sources on the deny-list are reported as C20 violations) + BX shifted replay.',
    'proved': ['every extracted agent function is verified against contracts that mention only its arguments and the agent state: results are functions of (state, arguments); time enters only through `now`',
               'lemma_poll_shift: the verdict function that StunRequestState::poll is proved to implement commutes with shifting every instant by a constant'],
    'bounded': ['whole-agent shifted replay, second instance, other thread, unrelated agents alongside: BX (the proved contract of StunAgent::poll deliberately leaves open WHICH of several due transactions is served first, so equality of replies between instances - the D7 clause - is decided by BX only); StunAgentBuilder::build (global AtomicUsize feeding the debug id): outside'],
    'proved_extra': ['StunAgent::poll is verified in the same closed world (rule R13): its reply and the state it leaves are constrained by (state, now) only'],
    'trusted': _AGENT_TRUST + _KX_TRUST,
}

_BX_TRUST = ['BX reference implementations (CRC-32, MD5, SHA-1, SHA-256, HMAC, TLV decoder/encoder, abstract agent) written for this harness from the RFCs / property statements; self-tested against published vectors and python hashlib/zlib at setup']
PROPS['C03'] = {
    'level': 'exploration',
    'vx': [{'unit': 'layout'}, {'unit': 'writers', 'functions': ['write_into', 'write_into_unchecked', 'to_bytes', 'write_header']}, {'unit': 'writers_lists', 'functions': ['write_into', 'write_into_unchecked', 'write_into_data', 'write_data_into_unchecked', 'to_raw', ':: write']},
           {'unit': 'builder', 'functions': ['write_into', 'into_owned', 'to_owned', 'add_fingerprint_unchecked', 'add_message_integrity_unchecked', 'integrity_bytes_from_message', 'theorem_sealed_fingerprint', 'theorem_sealed_sha1', 'theorem_sealed_sha256', 'lemma_last_tlv', 'lemma_layout_push', 'lemma_layout_split', 'lemma_write_step', 'lemma_write_room', ':: from', ':: new', 'theorem_builder_wellformed', 'theorem_unsealed_builder_parses', 'theorem_fingerprinted_builder_parses', 'theorem_guarded_builder_parses', 'theorem_guarded_builder_exposes_all', 'lemma_all_exposed', 'lemma_offsets_describe', 'lemma_all_offsets_len', 'lemma_layout_head', 'lemma_ordered_blist', 'lemma_ordered_push', 'lemma_ordered_ext', 'lemma_blayout_tail_ok', 'lemma_blist_push', 'lemma_unsealed_ok', 'lemma_flags_unsealed', 'lemma_layout_mod4']}],
    'kx': ['k03_build_small'],
    'bx': ['c03'],
    'technique': 'contract-based deductive verification: Verus contracts on the real MessageBuilder (write_into, byte_len, build, guards, sealing workers, into_owned; iterator adaptors replaced by their defining loops, rule R11) and on every attribute writer, composition theorems connecting the builder bytes to the verified parser contract; Kani for four fixed-size writers; bounded stand-in (execution against an independent serialiser + reference decoder) for end-to-end typed equality and clone()',
    'rule': 'see engines.bx[0].rule',
    'proved': ['(unit layout, spec level) theorem_layout_wellformed: header + concatenation of padded TLVs of any attribute list obeying the ordering rules (with FINGERPRINT values given by the CRC spec function) within the 16-bit length field is a well-formed message: length a multiple of four, header length field = length - 20, accepted by the verified parser contract (wf_message); lemma_layout_tail_ok for every tail',
               '(unit writers) every attribute writer used by the builder produces exactly tlv_bytes(type, value) (15 typed + raw in Verus, 4 in Kani; see C12)',
               '(unit builder) MessageBuilder::write_into, for attribute lists of ANY length: into an exact or larger destination it writes header20(type, body length, magic cookie, 96-bit transaction id) followed by the padded TLVs of the attributes in order and reports exactly that length (so length = 20 + a sum of multiples of four, header length field = length - 20), touching nothing beyond it; AttrOrRaw::write_into dispatches to the two writers; MessageType::write_into',
               '(unit builder) sealing: add_fingerprint_unchecked / add_message_integrity_unchecked append exactly one attribute whose value is the CRC / HMAC of build() with the adjusted length field (over the assumed contracts of build(), the crc/hmac crates and make_hmac_key), and the composition theorems show the sealed serialisation satisfies fp_ok / mi_correct / mi256_correct; AttrOrRaw::into_owned, RawAttribute::into_owned, Data::into_owned preserve type and value bytes',
               '(unit builder) theorem_builder_wellformed / theorem_unsealed_builder_parses / theorem_fingerprinted_builder_parses: the bytes that write_into is proved to write for a builder whose list obeys the ordering rules (in particular: any list of non-sealing attributes, and such a list sealed by add_fingerprint) satisfy wf_message - the predicate for which Message::from_bytes is proved Ok <==> wf_message in unit parse - with length a multiple of four, header length field = length - 20, and the type and transaction id in the header',
               '(unit builder) [C03.sequence] theorem_guarded_builder_exposes_all + lemma_offsets_describe: for every builder obeying the grammar that the guarded operations are proved to preserve (ord()), the exposed attribute stream of its bytes - which MessageAttributesIter::next is proved to yield (unit parse) - consists of exactly the attributes of the builder in order, the k-th exposed TLV carrying the type and the value bytes of the k-th attribute, the sealing attributes included',
               '(in C02/C10) the parser accepts exactly the well-formed buffers and exposes them faithfully - so "parses back identically" reduces to "the builder concatenates header and attribute TLVs as specified" (now proved for write_into) plus the sealing values'],
    'bounded': ['(byte_len and build() are PROVED since rule R11) BX compares them with the independent serialiser, Kani k03_build_small (thorough tier) checks them on builders of two raw attributes with symbolic types / 0..=4 symbolic value bytes / all ids',
                'MessageBuilder::clone: BX random builder programs',
                'typed value equality after the round trip end to end on the real builder / parser / typed decoders: BX (the per-type decode(encode(v)) == v theorems are in units attrs / writers / writers_lists, UNKNOWN-ATTRIBUTES included since the third session; that every one of the 19 types is covered by such a theorem or a complete Kani harness has not been re-audited, hence the level)'],
    'trusted': _BX_TRUST + ['AttributeWriteExt::write_into on dyn AttributeWrite / RawAttribute: assumed in unit builder with the contract proved in unit writers (same text); be_write_u128_at_slice / be_write_u16_slice shims (KX k_shim_u128)'],
}
PROPS['C11'] = {
    'level': 'exploration',
    'vx': [{'unit': 'builder', 'functions': ['add_attribute', 'add_raw_attribute', 'add_message_integrity', 'add_fingerprint', 'add_fingerprint_unchecked', 'add_message_integrity_unchecked', ':: builder',
                                             'lemma_first_among', 'lemma_among4', 'lemma_among_sub', 'lemma_holds_push', 'lemma_has_inv', 'lemma_flags_has', 'lemma_ordered_push', 'lemma_ordered_ext', 'lemma_ordered_blist',
                                             'lemma_blayout_tail_ok', 'lemma_last_tlv', 'theorem_builder_wellformed', 'theorem_guarded_builder_parses']}],
    'kx': ['k11_builder_queries_small'],
    'bx': ['c11'],
    'technique': 'Verus contracts on the four guard functions of the real MessageBuilder (add_attribute, add_raw_attribute, add_message_integrity, add_fingerprint) and their sealing workers over an abstract type list, with the two iterator-adaptor query helpers under assumed contracts; the ordering grammar as a preserved invariant and the theorem that a builder obeying it is accepted by the parser; bounded stand-in (exhaustive operation sequences over the sealing alphabet + random programs on the real MessageBuilder against the ordering rules of the statement) for everything assumed',
    'rule': 'see engines.bx[0].rule',
    'proved': ['(unit builder) add_attribute / add_raw_attribute: Err <==> the type is already present or the builder holds MESSAGE-INTEGRITY, MESSAGE-INTEGRITY-SHA256 or FINGERPRINT; on Err the whole builder is unchanged; on Ok exactly that attribute is appended to both the attribute list and the type list (representation invariant: the type list the queries answer from describes the attribute list that is serialised)',
               '(unit builder) add_message_integrity: SHA-1 refused <==> MI, MI-SHA256 or FINGERPRINT present; SHA-256 refused <==> MI-SHA256 or FINGERPRINT present; refused => builder unchanged; accepted => one attribute of that type appended',
               '(unit builder) add_fingerprint: refused <==> FINGERPRINT present; refused => builder unchanged',
               '(unit builder) [C11.order] Message::builder starts with, and add_attribute / add_raw_attribute / add_message_integrity / add_fingerprint (and their workers) preserve, the ordering grammar `ord()` of the attribute list (only sealing attributes after an integrity attribute, nothing after FINGERPRINT, no repeated sealing attribute, values within the 16-bit field); theorem_guarded_builder_parses: a builder with `ord()` whose FINGERPRINT (if any) has the value add_fingerprint appends serialises (write_into, proved) to bytes satisfying wf_message, i.e. the parser (unit parse: Ok <==> wf_message) accepts it',
               'the documented panics of add_attribute/add_raw_attribute (integrity/fingerprint types passed directly) are preconditions; under them the panic!/unreachable arms are proved unreachable'],
    'bounded': ['(has_attribute / has_any_attribute are PROVED since rule R11: contains / first element of the list among the given types, over the smallvec stand-in whose Deref yields its elements) also exercised by BX on every builder state (C11:query-vs-serialisation) and checked by Kani on builders of three symbolic types (k11_builder_queries_small, thorough tier, bounded)',
                'whole-sequence behaviour: BX, exhaustive for sequences up to length 5 (quick) / 6 (thorough) over {typed, raw, SHA-1, SHA-256, fingerprint}, random programs up to length 7 with into_owned/clone/duplicates'],
    'trusted': _BX_TRUST + ['smallvec::SmallVec stand-in (push appends; clone preserves the sequence)', 'mirror of trait AttributeWrite without its supertrait (get_type only)'],
}
PROPS['C04'] = {
    'level': 'proof',
    'vx': [{'unit': 'integrity'}, {'unit': 'parse', 'functions': ["Message<'a> :: from_bytes", 'next', 'iter_attributes', 'raw_attribute']},
           {'unit': 'builder', 'functions': ['add_message_integrity', 'add_message_integrity_unchecked', 'integrity_bytes_from_message', 'theorem_sealed_sha1', 'theorem_sealed_sha256', 'theorem_sealed_message_validates', 'lemma_first_exposed_then', 'lemma_layout_head', 'lemma_last_tlv', 'MessageIntegrity :: new', 'MessageIntegritySha256 :: new']}],
    'bx': ['c04'],
    'rule': 'see engines.bx[0].rule',
    'proved': ['(unit integrity) Message::validate_integrity on every accepted message: no exposed integrity attribute => Err(MissingAttribute); an exposed MESSAGE-INTEGRITY-SHA256 is the attribute checked and Ok(Sha256) <=> its length is 16..32 step 4 and its value == HMAC-SHA256(key, message prefix with the length field set to the end of the attribute) truncated; otherwise Ok(Sha1) <=> the exposed MESSAGE-INTEGRITY is 20 bytes == HMAC-SHA1(key, prefix with rewritten length); the unreachable!() after the scan is unreachable; no overflow in the 16-bit length arithmetic',
               'MessageIntegrity / MessageIntegritySha256 decoders accept exactly (type, length) per RFC and expose the value bytes',
               '(unit parse) every accepted buffer is tiled by TLVs and the iterator exposes the integrity attributes per the C10 rule',
               '(unit builder) builder side: add_message_integrity(_unchecked) appends MESSAGE-INTEGRITY = HMAC-SHA1(key, build() with the length field +24) resp. MESSAGE-INTEGRITY-SHA256 = HMAC-SHA256(key, build() with the length field +36), key = make_hmac_key(credentials); theorem_sealed_sha1/sha256: the serialisation of the sealed builder satisfies exactly the predicate (mi_correct / mi256_correct) under which validate_integrity is proved to answer Ok; theorem_sealed_message_validates: for a builder of non-sealing attributes sealed once, the appended attribute is the FIRST EXPOSED integrity attribute of the serialised message (and no MESSAGE-INTEGRITY-SHA256 is exposed in the SHA-1 case) - together the premises of clauses [C04.sha1] / [C04.sha256] of validate_integrity, i.e. the message a builder seals validates under the same credentials'],
    'bounded': ['(raw_attribute: its contract is assumed in unit integrity and PROVED in unit parse - same text, units/_raw_attribute_contract.vrs; unit parse is run for this property)',
                'key derivation make_hmac_key (password / MD5(user:realm:password)), agreement of the hmac/sha crates with RFC 2104, tamper evidence on concrete messages, build() == header + TLVs (assumed in unit builder): BX against independent HMAC-SHA1/SHA256/MD5'],
    'trusted': _BX_TRUST + ['hmac / sha1 / sha2 / md-5 crates (their agreement with the independent implementations is checked on every BX case, not proved)'],
}
for _p in ('C01', 'C02', 'C05', 'C06', 'C07', 'C08', 'C09', 'C10', 'C12', 'C13', 'C14', 'C15', 'C16', 'C17', 'C18', 'C19', 'C20'):
    PROPS[_p].setdefault('trusted', [])
    PROPS[_p]['trusted'] = PROPS[_p]['trusted'] + _BX_TRUST

LEVEL_TEXT = {
 'C01': "Proof: Verus discharges every index/slice/arithmetic/unwrap/unreachable/termination obligation of the decoding entry points (whole message, header, type, raw attribute, 14 typed decoders, iterator, validate_integrity) for ALL byte strings, with precondition `true` on the bytes (representation invariant wf_message for methods on an accepted message); Kani covers the remaining 5 typed decoders completely. Formatting, policing and tracing-subscriber clauses are outside both verifiers and are run by the bounded stand-in (catch_unwind + watchdog), listed as bounded. One known finding (D8) is reported as KNOWN-FINDING.",
 'C02': "Proof: `Message::from_bytes` is verified `Ok <==> wf_message(bytes)` for buffers of every length against a recursive spec predicate written from the statement (not from the code); header fields, the exposed attribute stream (iterator) and the header/declared-length error cases are postconditions; each interior rejection (attribute after integrity / after fingerprint with its type, fingerprint mismatch) is proved to point at a real witness in the buffer (unit parsecause). The lookups raw_attribute / has_attribute / attribute::<A>() are proved as well (rule R11 replaces the iterator adaptors find / any by their defining loops, the closures of the real code verbatim): they answer with the first attribute of the type in the exposed stream. Which of several applicable causes is reported is decided by the bounded differential against an independent reference decoder.",
 'C03': "Exploration: the builder side is under Verus contracts - write_into writes header + padded TLVs in order for lists of any length (per-attribute writers proved under C12), every guarded operation keeps the ordering grammar, the sealing workers append the CRC / HMAC of build() with the adjusted length field - and the composition theorems show that these bytes satisfy wf_message (so the verified parser accepts them), have the stated length properties, and expose exactly the builder's attributes in order with their types and value bytes. byte_len / build (iterator map/sum) and the builder query helpers (iterator any/find) are proved too since rule R11 (adaptor chains replaced by their defining loops). What remains assumed or bounded: the crypto crates, clone(), and typed-value equality where a decoder is outside the verifier (UNKNOWN-ATTRIBUTES) - decided by random builder programs against an independent serialiser with independent HMAC/CRC. The UNKNOWN-ATTRIBUTES decoder and its round trip are proved since the third session; the level stays exploration because the coverage of all 19 types by round-trip theorems has not been re-audited end to end.",
 'C04': "Proof: `Message::validate_integrity` is verified for every accepted message and every credential against the RFC 8489 s14.5/14.6 specification (which exposed attribute is checked, HMAC input = prefix with the length field set to the end of that attribute, truncated SHA-256 lengths, MissingAttribute) with HMAC/MD5 as uninterpreted functions; the builder side (add_message_integrity appends the HMAC of build() with the adjusted length field; the sealed message meets exactly the premises of validate_integrity's Ok clauses) is proved as well. That the hmac/sha crates compute those functions, the key derivation (String concatenation: outside the verifier) and tamper-evidence on concrete messages are bounded (independent HMAC-SHA1/SHA256/MD5 implementation).",
 'C05': "Proof: whole-view postconditions of send / handle_stun / take_outstanding_request / request_transaction / cancel / cancel_retransmissions / configure_timeout / StunRequestState::poll and - since the third session - StunAgent::poll (its `for .. in values_mut()` loop replaced by its definition, rule R13, over trusted axioms for BTreeMap::values_mut) are proved by Verus for any number of outstanding transactions: a completion is reported only for an outstanding transaction with that verdict and removes exactly it; the exactly-once theorem is an induction over these postconditions. The bounded stand-in (exhaustive small-scope histories against an abstract agent) remains as cross-check of the trusted iterator axioms and witness finder.",
 'C06': "Proof: the per-request schedule (StunRequestState::new defaults and poll for schedules of any length and all instants) is proved by Verus; configure_timeout is proved as well for the property's configuration range (rule R11 replaces `(0..n).map(..).collect()` / `.fold(..)` by their defining loops; Duration arithmetic through trusted axioms): exactly `retransmits` entries initial_rto*2^i, the TCP sum, nothing else changed. The agent-level poll is proved too (rule R13 over trusted BTreeMap::values_mut axioms): WaitUntil(t) iff every outstanding transaction waits, t the earliest due instant; lemma_wait_until_law gives 'earlier: same t, no event; at t: an event'. Exhaustive small-scope and random histories (early/exact/late polls at microsecond resolution) remain as bounded cross-check.",
 'C07': "Proof: handle_stun's postcondition (delivered => outstanding and, if the request was sealed, remote credentials set and validate_integrity Ok; otherwise Drop with the whole abstract state unchanged) and request_had_credentials <=> builder has an integrity attribute are verified by Verus for all inputs; validate_integrity itself is C04. End-to-end with real HMACs is bounded.",
 'C08': "Proof: decode side proved - 14 typed decoders in Verus for value strings of ANY length (UTF-8 via vstd::utf8), 5 in Kani (complete); encode side proved for to_raw/length of the string types and the in-place writers of 15 types (C12). The UNKNOWN-ATTRIBUTES decoder is proved too since the third session (rule R13 on `for .. in chunks_exact(2)` over a trusted ChunksExact specification; theorem_unknown_attributes_roundtrip). The &str constructors are proved as well (rule R14: str::len replaced by its definition as_bytes().len(), which vstd specifies as the UTF-8 encoding). Nothing the statement needs rests on the bounded stand-in any more; it stays registered as cross-check.",
 'C09': "Proof: an accepted buffer with a FINGERPRINT at offset o satisfies value == crc32(bytes[..o] with length field o+8-20) ^ 0x5354554e and o+8 == len (clause fp_ok of wf_message, verified for all buffers); XOR constant by Kani for all 2^32 values; the builder side (add_fingerprint appends crc32 of build() with the length field + 8, xor the constant; the sealed serialisation satisfies fp_ok and is accepted by the parser) is proved, build() included (rule R11). That Fingerprint::compute is CRC-32/ISO-HDLC and the corruption sweeps are bounded.",
 'C10': "Proof: the iterator is verified to yield exactly the exposure rule of the statement on every accepted message; the 'hence' clauses (non-sealing exposed attributes lie before the end of the first integrity attribute; prefix stability) are spec-level lemmas; validate_integrity checks an exposed attribute over that prefix (C04). The lookups raw_attribute / has_attribute / attribute::<A>() are proved to answer from that same exposed stream (rule R11: find / any replaced by their defining loops), so nothing hidden is reachable through them either.",
 'C11': "Exploration: the four guard functions of the real MessageBuilder are verified by Verus against the ordering rules of the statement (refused exactly when ..., refused => builder unchanged, accepted => appended), including the two query helpers has_attribute / has_any_attribute and build() (iterator adaptors replaced by their defining loops, rule R11); assumed: the hmac/crc crates and the smallvec stand-in. clone() (derived; Verus gives a derived Clone of a non-Copy type no specification) and the whole-sequence statement are decided by exhaustive operation sequences up to length 5/6 over the sealing alphabet plus random programs on the real builder - hence exploration. That every guarded operation keeps the ordering grammar, and that a builder obeying it serialises to a message the parser accepts, is proved (ord(), theorem_guarded_builder_parses).",
 'C12': "Exploration: for raw attributes and 15 typed attributes the in-place writer, the size guard of write_into and to_bytes are proved equal to the RFC TLV layout for values of any length (Verus), 4 more types by Kani; MessageBuilder::write_into's guard / exact-or-larger / nothing-beyond clauses are proved for attribute lists of any length (Verus). build() == write_into() bytes and byte_len() are proved as well (rule R11 replaces the iterator map/sum by its defining loop). clone() (derived; no Verus specification for a derived Clone of a non-Copy type) is bounded - hence exploration.",
 'C13': "Proof: complete Kani harnesses over all IPv4/IPv6 addresses x ports x transaction ids (fixed trip-count loops unwound with assertions): round trip, RFC wire bytes, other transaction id.",
 'C14': "Proof: push_data/pull_data/take verified against the abstract pull step; the stream-level statement (any frame list, any chunking, any interleaving) is theorem_history, an induction over those contracts (unique decoding of the length-prefixed stream).",
 'C15': "Proof: whole-set postconditions on validated_peers for every operation in Verus and theorem_peers (monotone; validated exactly by an Incoming/Deliver event from that address). StunAgent::poll is proved to leave the set unchanged.",
 'C16': "Proof: comprehension_required is proved for all 65536 types (Verus and Kani); Message::check_attribute_types is verified for every accepted request and supported / required lists of any length against the statement's verdict (420 listing exactly the exposed unsupported comprehension-required types in message order, else 400 if a required type is not exposed, else nothing) - its four iterator chains (map/filter/collect, any, nested any) are replaced by their defining loops (rule R11), closures verbatim; the response constructors (class error, the request's method and id, ERROR-CODE 400/420, the listed types), the attribute writers / raw conversions of SOFTWARE, ERROR-CODE and UNKNOWN-ATTRIBUTES (units attrs, writers_lists), into_owned, build() and the theorem that an unsealed builder's bytes satisfy wf_message - for which the parser is proved to answer Ok - close 'parses back'. Software::new is checked by Kani on the one literal used. Bounded enumeration against an RFC 8489 s6.3.1 oracle remains as cross-check and witness finder.",
 'C17': "Proof: the [C17.short]/[C17.exact] clauses of from_bytes, the header decoder's contract and lemma_prefix_truncated give the statement for every well-formed message and every cut point, no bound.",
 'C18': "Proof: bytes captured once (new), SendData carries them with the same 5-tuple (request poll), send returns the unmodified serialisation, peer_address, and - since the third session - StunAgent::poll forwards exactly the Transmit of an outstanding transaction and changes nothing of any other one (rule R13 over trusted BTreeMap::values_mut axioms): all Verus, any number of transactions. BX histories remain as cross-check.",
 'C19': "Proof: complete Kani harnesses over all 4x4096 (class, method) pairs, all 65536 field values and all u128 ids; Verus for Message::{get_type,transaction_id} and the header decoder. Header writer placement is proved (MessageBuilder::write_into / build, unit builder); generated ids are bounded (rand).",
 'C20': "Exploration: every extracted agent function is verified in a closed world against contracts over (state, arguments) only (an ambient source would be an unsupported call and is reported for this property); shift invariance of the request poll contract; whole-agent shifted replay in another instance / thread is bounded.",
}
for _p, _t in LEVEL_TEXT.items():
    PROPS[_p]['level_text'] = _t
    PROPS[_p]['explanation'] = _t
