"""Per-property configuration: which engines/units decide which property."""

TRUSTED_COMMON = [
    'Verus 0.2026.09.13 + Z3 (soundness of the verifier and its vstd specifications of std)',
    'extraction rules R1..R10 of vx/rules.md (the verified text differs from /repo only by these)',
    'machine arithmetic: exec integers fixed width with overflow checked as in the debug profile; usize = 64 bit',
]
ASSUMPTIONS_COMMON = [
    'tracing macros and #[tracing::instrument] are dropped (R1): their argument expressions are not verified',
    'release-profile wrapping arithmetic is not what is verified (debug-profile overflow checks are)',
]
AMBIENT_DENY = ['time::Instant::now', 'SystemTime', 'rand::', 'std::env', 'thread::current', 'process::id', 'thread_rng']

PROPS = {}

PROPS['C14'] = {
    'level': 'proof',
    'vx': [{'unit': 'tcpbuffer'}],
    'bx': ['c14'],
    'rule': 'Verus verification conditions, one query per function/lemma of unit tcpbuffer.',
    'proved': ['push_data appends exactly the chunk', 'pull_data is exactly the abstract pull step (None iff no complete frame, buffer intact; Some = next frame, exactly it consumed)',
               'history theorem: for every frame list, chunking and push/pull interleaving the pulled sequence is a prefix of the frames sent and equals them once all bytes are pushed and a pull returns None'],
    'bounded': ['BX: randomised frame lists / chunkings against the real TcpBuffer (witness finder, labelled bounded)'],
    'trusted': ['byteorder BigEndian::read_u16 = big-endian byte arithmetic (shim, cross-checked by KX k_shim_read_u16)',
                '<[T]>::to_vec, Vec::extend(&[u8]) (assume_specification / axiom in vx/shims/std.rs)', 'vstd specs of Vec::len, slice split_at, slice index'],
    'assumptions': ['trace!() lines of pull_data dropped (R1)'],
}
NOT_APPLICABLE = {}
