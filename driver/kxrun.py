"""KX engine (Kani) - filled in later."""


def run_harnesses(hs, tier='quick'):
    return {'report': [], 'cmds': [], 'obligations': 0, 'discharged': 0, 'violations': [], 'undecided': [], 'samples': []}
