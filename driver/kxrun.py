"""KX engine: Kani 0.68 on a scratch copy of the real crates with harness modules injected.

The scratch copy is created under $VERIF_SCRATCH (default /var/tmp), outside /repo and /verif, and
removed with its build output when the run ends.  Nothing is written to /repo.

Injection (all under cfg(kani), which only `cargo kani` sets):
  * kx/harness/<name>.rs is appended verbatim to the source file named on its first line
    (`// @append-to: stun-types/src/message.rs`); harness modules can therefore name private items.
  * [patch.crates-io] tracing / tracing-attributes -> kx/tracing-stub (no-op macros).  Required: any
    reachable tracing event makes kani-compiler 0.68 crash.  This drops exactly what rule R1 drops.
"""
import json
import os
import re
import shutil
import subprocess
import tempfile
import time

ROOT = os.path.dirname(os.path.dirname(os.path.abspath(__file__)))
REPO = os.environ.get('VERIF_REPO', '/repo')
HARNESS_DIR = os.path.join(ROOT, 'kx', 'harness')


def load_registry():
    return json.load(open(os.path.join(ROOT, 'kx', 'harnesses.json')))


def make_scratch():
    base = os.environ.get('VERIF_SCRATCH', '/var/tmp')
    os.makedirs(base, exist_ok=True)
    d = tempfile.mkdtemp(prefix='verif-kx-', dir=base)
    for name in ('Cargo.toml', 'Cargo.lock', 'stun-types', 'stun-proto', 'fuzz'):
        src = os.path.join(REPO, name)
        dst = os.path.join(d, name)
        if os.path.isdir(src):
            shutil.copytree(src, dst, ignore=shutil.ignore_patterns('target', '.git'))
        elif os.path.exists(src):
            shutil.copy(src, dst)
    # patch tracing
    with open(os.path.join(d, 'Cargo.toml'), 'a') as f:
        f.write('\n[patch.crates-io]\ntracing = { path = "%s/kx/tracing-stub/tracing" }\ntracing-attributes = { path = "%s/kx/tracing-stub/tracing-attributes" }\n' % (ROOT, ROOT))
    os.makedirs(os.path.join(d, '.cargo'), exist_ok=True)
    open(os.path.join(d, '.cargo', 'config.toml'), 'w').write('[net]\noffline = true\n')
    # the workspace member `fuzz` needs libfuzzer; drop it from the members list of the scratch copy
    ct = open(os.path.join(d, 'Cargo.toml')).read()
    ct = ct.replace('members = ["stun-types", "stun-proto", "fuzz"]', 'members = ["stun-types", "stun-proto"]')
    open(os.path.join(d, 'Cargo.toml'), 'w').write(ct)
    shutil.rmtree(os.path.join(d, 'fuzz'), ignore_errors=True)
    return d


def inject(scratch, files):
    """append harness files; returns list of (harness file, target) ; raises on lost anchor"""
    done = []
    for hf in files:
        p = os.path.join(HARNESS_DIR, hf)
        txt = open(p).read()
        m = re.match(r'//\s*@append-to:\s*(\S+)', txt)
        if not m:
            raise RuntimeError('harness file %s lacks @append-to' % hf)
        tgt = os.path.join(scratch, m.group(1))
        if not os.path.exists(tgt):
            raise RuntimeError('lost anchor: %s (target of %s)' % (m.group(1), hf))
        with open(tgt, 'a') as f:
            f.write('\n' + txt)
        done.append((hf, m.group(1)))
    return done


def run_harnesses(names, tier='quick'):
    """names: list of harness names registered in kx/harnesses.json"""
    reg = load_registry()
    hs = []
    for n in names:
        if n not in reg:
            raise RuntimeError('unregistered harness %s' % n)
        h = dict(reg[n])
        h['name'] = n
        if h.get('tier', 'quick') == 'thorough' and tier != 'thorough':
            continue
        if h.get('disabled'):
            continue
        hs.append(h)
    out = {'report': [], 'cmds': [], 'obligations': 0, 'discharged': 0, 'violations': [], 'undecided': [], 'samples': []}
    if not hs:
        return out
    t0 = time.time()
    scratch = make_scratch()
    try:
        # every harness file is injected (they share helpers in attribute_mod.rs); a harness file that no longer
        # compiles against the current tree makes the whole KX run undecided, never an alarm
        files = sorted(f for f in os.listdir(HARNESS_DIR) if f.endswith('.rs'))
        # all harness files appended to the same targets must be injected together (they share helper code)
        try:
            inject(scratch, files)
        except RuntimeError as e:
            out['undecided'].append('kx: %s' % e)
            return out
        by_pkg = {}
        for h in hs:
            by_pkg.setdefault(h['package'], []).append(h)
        for pkg, lst in by_pkg.items():
            hto = max(h.get('timeout_s', 300) for h in lst)
            cmd = ['cargo', 'kani', '-p', pkg, '-Z', 'function-contracts', '-Z', 'stubbing', '-Z', 'unstable-options', '--harness-timeout', '%ds' % hto, '--output-format', 'terse', '-j', '12']
            for h in lst:
                cmd += ['--harness', h['name']]
            env = dict(os.environ)
            env['CARGO_NET_OFFLINE'] = 'true'
            env['CARGO_TARGET_DIR'] = os.path.join(scratch, 'target')
            tmo = hto * 2 + 400
            t1 = time.time()
            try:
                p = subprocess.run(cmd, cwd=scratch, env=env, stdout=subprocess.PIPE, stderr=subprocess.STDOUT, text=True, timeout=tmo)
                log = p.stdout
                rc = p.returncode
            except subprocess.TimeoutExpired as e:
                log = (e.stdout or '') if isinstance(e.stdout, str) else (e.stdout or b'').decode('utf8', 'replace')
                rc = -9
                subprocess.run(['pkill', '-f', 'cbmc'], check=False)
            dt = time.time() - t1
            out['cmds'].append(' '.join(cmd).replace(scratch, '<scratch copy of /repo>'))
            os.makedirs(os.path.join(ROOT, 'build', 'kx'), exist_ok=True)
            open(os.path.join(ROOT, 'build', 'kx', 'last-%s.log' % pkg), 'w').write(log)
            res = parse_kani_log(log)
            compile_failed = ('error: could not compile' in log or 'error[E' in log) and not res
            for h in lst:
                r = res.get(h['name'])
                entry = {'harness': h['name'], 'kind': h.get('kind', 'complete'), 'bound': h.get('bound'), 'claims': h.get('claims'),
                         'package': pkg, 'result': None, 'checks': None, 'time_s': None}
                if compile_failed or r is None:
                    entry['result'] = 'undecided'
                    why = 'kani build failed' if compile_failed else ('timeout' if rc == -9 else 'no result for harness')
                    tail = '\n'.join(l for l in log.split('\n') if l.startswith('error'))[:600]
                    msg = 'kx: %s %s' % (why, tail) if compile_failed else 'kx/%s: %s' % (h['name'], why)
                    if msg not in out['undecided']:
                        out['undecided'].append(msg)
                else:
                    entry['result'] = r['status']
                    entry['time_s'] = r.get('time_s')
                    entry['failed_checks'] = r.get('failed', [])[:8]
                    out['obligations'] += 1
                    if r['status'] == 'SUCCESSFUL':
                        out['discharged'] += 1
                    elif r['status'] == 'FAILED' and any('not currently supported by Kani' in x for x in r.get('failed', [])):
                        # the harness reaches a construct Kani cannot model on this tree (e.g. a foreign call): every other failed
                        # check of the run is a consequence - undecided, never an alarm
                        entry['result'] = 'undecided'
                        out['undecided'].append('kx/%s: construct unsupported by Kani (%s)' % (h['name'], '; '.join(x for x in r['failed'] if 'supported' in x)[:200]))
                    elif r['status'] == 'FAILED' and r.get('failed') and all('unwinding assertion' in x for x in r['failed']):
                        # only the unwinding bound of the harness was exceeded: the harness does not cover this tree - undecided, never an alarm
                        entry['result'] = 'undecided'
                        out['undecided'].append('kx/%s: unwinding bound of the harness exceeded (%s)' % (h['name'], '; '.join(r['failed'][:3])))
                    elif r['status'] == 'FAILED':
                        desc = '; '.join(r.get('failed', [])[:4])
                        out['violations'].append({'engine': 'kx', 'key': 'kx:%s' % h['name'], 'what': 'Kani harness %s (%s) failed: %s' % (h['name'], h.get('claims', ''), desc),
                                                  'obligation': 'kx::%s' % h['name'], 'detail': r.get('detail', '')[:3000]})
                    else:
                        out['undecided'].append('kx/%s: %s' % (h['name'], r['status']))
                out['report'].append(entry)
            out['samples'].append({'engine': 'kx', 'harnesses': [h['name'] for h in lst][:8], 'wall_s': round(dt, 1)})
    finally:
        shutil.rmtree(scratch, ignore_errors=True)
    out['wall_s'] = round(time.time() - t0, 1)
    return out


def parse_kani_log(log):
    """returns {harness: {status, failed[], time_s}}; handles sequential and `-j` (Thread N:) output"""
    res = {}
    thread_h = {}
    timed_out = set()
    cur = None
    buf = []
    for ln in log.split('\n'):
        m = re.match(r'Thread (\d+): Checking harness (\S+?)\.\.\.', ln)
        if m:
            h = m.group(2).split('::')[-1]
            thread_h[m.group(1)] = h
            res.setdefault(h, {'status': 'UNKNOWN', 'failed': [], 'detail': ''})
            continue
        m = re.match(r'Thread (\d+):\s*$', ln)
        if m:
            cur = thread_h.get(m.group(1))
            buf = []
            continue
        m = re.match(r'Checking harness (\S+?)\.\.\.', ln)
        if m:
            cur = m.group(1).split('::')[-1]
            res[cur] = {'status': 'UNKNOWN', 'failed': [], 'detail': ''}
            buf = []
            continue
        if cur is None:
            continue
        buf.append(ln)
        m = re.match(r'Failed Checks: (.*)', ln)
        if m:
            res[cur]['failed'].append(m.group(1))
        m = re.match(r'VERIFICATION:- (\w+)', ln)
        if m:
            res[cur]['status'] = m.group(1)
            res[cur]['detail'] = '\n'.join(buf[-60:])
        if 'CBMC timed out' in ln or 'out of memory' in ln.lower():
            res[cur]['status'] = 'TIMEOUT'
            timed_out.add(cur)
        m = re.match(r'Verification Time: ([0-9.]+)s', ln)
        if m:
            res[cur]['time_s'] = float(m.group(1))
    for m in re.finditer(r'Verification failed for - (\S+)', log):
        n = m.group(1).split('::')[-1]
        res.setdefault(n, {'status': 'FAILED', 'failed': [], 'detail': ''})
        if res[n]['status'] == 'UNKNOWN' and n not in timed_out:
            res[n]['status'] = 'FAILED'
    return res
