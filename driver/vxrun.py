"""VX engine: extract units from /repo's working tree, run Verus, classify the outcome."""
import json
import os
import re
import subprocess
import sys
import time

ROOT = os.path.dirname(os.path.dirname(os.path.abspath(__file__)))
sys.path.insert(0, os.path.join(ROOT, 'vx'))
import extract  # noqa: E402

BUILD = os.path.join(ROOT, 'build', 'vx')
import threading
_EXTRACT_LOCK = threading.Lock()   # the extractor keeps module-level state; only the Verus runs are parallel

SEMANTIC = ('postcondition not satisfied', 'precondition not satisfied', 'assertion failed',
            'possible arithmetic underflow/overflow', 'invariant not satisfied',
            'decreases not satisfied', 'possible division by zero', 'unreachable',
            'loop invariant not satisfied', 'invariant not satisfied at end of loop body',
            'invariant not satisfied before loop', 'possible bit shift underflow/overflow',
            'recursive call', 'failed this', 'might not terminate', 'termination')
UNDECIDED_HINTS = ('Resource limit', 'rlimit', 'timed out', 'not supported', 'unsupported', 'The verifier does not yet support')


def _run_verus(path, rlimit, multiple_errors=20, only=None):
    cmd = ['verus', path, '--output-json', '--time', '--multiple-errors', str(multiple_errors), '--rlimit', str(rlimit),
           '--error-format=json', '--no-report-long-running']
    if only:
        cmd += ['--verify-root', '--verify-function', only]
    t0 = time.time()
    p = subprocess.run(cmd, cwd=os.path.dirname(path), stdout=subprocess.PIPE, stderr=subprocess.PIPE, text=True)
    dt = time.time() - t0
    out = None
    try:
        out = json.loads(p.stdout)
    except Exception:
        out = None
    diags = []
    for ln in p.stderr.split('\n'):
        ln = ln.strip()
        if ln.startswith('{') and '"$message_type"' in ln:
            try:
                d = json.loads(ln)
            except Exception:
                continue
            if d.get('level') in ('error',) and d.get('message', '').startswith('aborting due to'):
                continue
            diags.append(d)
    return {'cmd': ' '.join(cmd), 'rc': p.returncode, 'json': out, 'diags': diags, 'stderr': p.stderr, 'wall_s': dt}


def _fn_of_line(info, line):
    for f in info['functions']:
        a, b = f['gen_lines']
        if a <= line <= b:
            return f
    return None


def _labels_near(gen_lines, a, b):
    """labels `[Cxx.name]` on lines a..b of the generated file (the failed clause span)"""
    labs = []
    for k in range(max(0, a - 1), min(len(gen_lines), b)):
        labs += re.findall(r'\[(C\d\d(?:\.[A-Za-z0-9_\-]+)?)\]', gen_lines[k])
    return labs


def run_unit(unit, rlimit=30, vacuity=True):
    """Returns a dict: status in {'verified','failed','undecided'}, failures[], functions[], timing, ...
    Functions whose hints no longer fit the tree are degraded to assumed contracts (see extract.build_unit) and the unit is
    re-run; `degraded` lists them - the caller makes every property that depends on one of them undecided."""
    degrade = {}
    unsupported_seen = []
    for _round in range(4):
        res = _run_unit_once(unit, rlimit, vacuity, degrade)
        unsupported_seen += res.get('unsupported_paths', [])
        more = res.pop('_degrade_candidates', None)
        if not more:
            break
        new = {k: v for k, v in more.items() if k not in degrade}
        if not new:
            break
        degrade.update(new)
    if unsupported_seen:
        res['unsupported_paths'] = sorted(set(unsupported_seen))
    return res


def _run_unit_once(unit, rlimit, vacuity, degrade):
    os.makedirs(os.path.join(BUILD, unit), exist_ok=True)
    upath = os.path.join(ROOT, 'vx', 'units', unit + '.vrs')
    res = {'unit': unit, 'status': 'undecided', 'failures': [], 'reason': None, 'functions': [], 'obligations': 0,
           'discharged': 0, 'smt_ms': 0, 'wall_s': 0.0, 'vacuity': None, 'degraded': []}
    t0 = time.time()
    try:
        with _EXTRACT_LOCK:
            extract._sources.clear()
            text, info = extract.build_unit(upath, vacuity=False, degrade=degrade)
            vtext, vinfo = (extract.build_unit(upath, vacuity=True, degrade=degrade) if vacuity else (None, None))
    except (extract.ExtractError, extract.ScanError) as e:
        res['reason'] = 'extraction: %s' % e
        res['wall_s'] = time.time() - t0
        return res
    except Exception as e:   # extractor bug / unexpected source shape: undecided, never an alarm
        res['reason'] = 'extraction (internal): %r' % e
        res['wall_s'] = time.time() - t0
        return res
    gen = os.path.join(BUILD, unit, unit + '.rs')
    open(gen, 'w').write(text)
    open(gen + '.info.json', 'w').write(json.dumps(info, indent=1))
    res['generated'] = gen
    res['degraded'] = info.get('degraded', [])
    res['rules_fired'] = info['rules_fired']
    res['rule_notes'] = info['rule_notes']
    res['assumption_scan'] = info['assumption_scan']
    res['assumed_names'] = info.get('assumed_names')
    res['contracted'] = [f['file'] + ' :: ' + f['path'] for f in info['functions']]
    res['items'] = [f['file'] + ' :: ' + f['path'] for f in info['items']]
    res['fn_texts'] = {f['file'] + ' :: ' + f['path']: '\n'.join(text.split('\n')[f['gen_lines'][0] - 1:f['gen_lines'][1]]) for f in info['functions']}
    procs = {}
    from concurrent.futures import ThreadPoolExecutor
    with ThreadPoolExecutor(max_workers=2) as ex:
        fut = ex.submit(_run_verus, gen, rlimit)
        vfut = None
        if vacuity and not any(not f.get('novacuity') for f in vinfo['functions']):
            vacuity = False   # nothing to twin (pure spec unit / only trait-impl methods)
        if vacuity:
            vgen = os.path.join(BUILD, unit, unit + '_vacuity.rs')
            open(vgen, 'w').write(vtext)
            vfut = ex.submit(_run_verus, vgen, 2, 0, '*vacuity__*')   # a twin that hits the resource limit is 'not verified', which is what the guard wants
        r = fut.result()
        vr = vfut.result() if vfut else None
    res['checker_cmd'] = r['cmd']
    res['wall_s'] = time.time() - t0
    gen_lines = text.split('\n')
    j = r['json']
    vres = (j or {}).get('verification-results', {})
    errors = [d for d in r['diags'] if d.get('level') == 'error']
    # function breakdown
    fb = []
    if j:
        for m in j.get('times-ms', {}).get('smt', {}).get('smt-run-module-times', []):
            fb += m.get('function-breakdown', [])
        res['smt_ms'] = j.get('times-ms', {}).get('smt', {}).get('total', 0)
    res['functions'] = [{'function': f['function'], 'mode': f.get('mode:'), 'ms': f.get('time'), 'success': f.get('success')} for f in fb]
    res['obligations'] = len(fb)
    res['discharged'] = sum(1 for f in fb if f.get('success'))
    # rustc errors raised after verification (trait items, borrow check, lifetimes: `error[E....]`): the generated file is not valid
    # Rust on this tree, so whatever was verified is not a verdict => undecided (functions are degraded when every error lies inside one)
    compile_errs = [d for d in errors if (d.get('code') or {}).get('code', '').startswith('E')]
    if j is None or vres.get('encountered-vir-error') or (not fb and errors) or compile_errs:
        if compile_errs:
            errors = compile_errs
        # compile / unsupported construct / internal error => undecided
        msgs = [d.get('message', '') for d in errors][:5]
        res['reason'] = 'verus did not reach verification: ' + ' | '.join(msgs) if msgs else 'verus produced no result: ' + r['stderr'][-400:]
        res['unsupported_paths'] = re.findall(r'`([^`]+)` is not supported', ' '.join(d.get('message', '') for d in errors))
        res['stderr_tail'] = r['stderr'][-2000:]
        # if every error lies inside the body of an extracted function, those functions can be degraded to assumed contracts
        cand = {}
        for d in errors:
            spans = d.get('spans', [])
            prim = [s_ for s_ in spans if s_.get('is_primary')] or spans
            prim = [s_ for s_ in prim if os.path.basename(s_.get('file_name', gen)) == os.path.basename(gen)]
            fn = _fn_of_line(info, prim[0]['line_start']) if prim else None
            if fn is None:
                cand = None
                break
            cand[fn['path']] = 'does not compile / not supported on this tree: ' + d.get('message', '')[:160]
        if cand:
            res['_degrade_candidates'] = cand
        return res
    fails = []
    undecided = []
    for d in errors:
        msg = d.get('message', '')
        spans = d.get('spans', [])
        prim = [s for s in spans if s.get('is_primary')] or spans
        line = prim[0]['line_start'] if prim else 0
        line_end = prim[0]['line_end'] if prim else 0
        # the function is where any span lies
        fn = None
        for s in prim + [x for x in spans if x not in prim]:
            if os.path.basename(s.get('file_name', gen)) != os.path.basename(gen):
                continue
            fn = fn or _fn_of_line(info, s['line_start'])
        # labels `[Cxx.clause]` are read from the PRIMARY span only (the failed clause of this function); the secondary span of a
        # failed precondition is the callee's `requires`, whose neighbouring labels belong to the callee
        labels = []
        for s in prim:
            if os.path.basename(s.get('file_name', gen)) == os.path.basename(gen):
                labels += _labels_near(gen_lines, s['line_start'], s['line_end'])
        entry = {'message': msg, 'gen_line': line, 'function': (fn['file'] + ' :: ' + fn['path']) if fn else 'template(line %d)' % line,
                 'src_lines': fn['src_lines'] if fn else None, 'labels': sorted(set(labels)),
                 'clause': ' '.join(x.strip() for x in gen_lines[line - 1:line_end][:6])[:400] if line else '',
                 'rendered': d.get('rendered', '')[:3000]}
        if any(h in msg for h in UNDECIDED_HINTS):
            undecided.append(entry)
        else:
            fails.append(entry)
    res['failures'] = fails
    res['undecided_notes'] = undecided
    if fails:
        res['status'] = 'failed'
    elif undecided or not vres.get('success'):
        res['status'] = 'undecided'
        res['reason'] = 'solver limit / unexpected verus status: ' + '; '.join(u['message'] for u in undecided)[:300]
    else:
        res['status'] = 'verified'
    # vacuity: every contracted function must FAIL when `false` is added to its postcondition
    if vr is not None:
        vj = vr['json']
        vfb = []
        if vj:
            for m in vj.get('times-ms', {}).get('smt', {}).get('smt-run-module-times', []):
                vfb += m.get('function-breakdown', [])
        ok_names = {f['function'] for f in vfb if f.get('success')}
        vac = []
        checked = 0
        for f in vinfo['functions']:
            if f.get('novacuity'):
                continue
            checked += 1
            if any(n.split('::')[-1] == 'vacuity__' + f['name'] for n in ok_names):
                vac.append(f['path'])
            elif not any(x['function'].split('::')[-1] == 'vacuity__' + f['name'] for x in vfb):
                vac.append(f['path'] + ' (twin missing from the vacuity run)')
        res['vacuity'] = {'checked': checked, 'vacuous': vac, 'ran': vj is not None and bool(vfb)}
        if res['status'] == 'verified' and (vac or not res['vacuity']['ran']):
            res['status'] = 'undecided'
            res['reason'] = 'vacuity guard: %s' % (('`ensures false` verified for ' + ', '.join(vac)) if vac else 'vacuity run produced no result')
    return res
