#!/usr/bin/env python3
"""Regenerates MANIFEST.json from driver/props.py (run after editing props)."""
import json, os, sys
ROOT = os.path.dirname(os.path.dirname(os.path.abspath(__file__)))
sys.path.insert(0, os.path.join(ROOT, 'driver'))
import props
all_ids = [json.loads(l)['id'] for l in open(os.path.join(ROOT, 'properties.jsonl'))]
checks = []
for pid in all_ids:
    if pid not in props.PROPS:
        continue
    c = props.PROPS[pid]
    checks.append({
        'property_id': pid,
        'quick_cmd': './check %s --tier quick' % pid,
        'thorough_cmd': './check %s --tier thorough' % pid,
        'evidence_file': 'evidence/%s.json' % pid,
        'replay_cmd_template': './check %s --replay {path}' % pid,
        'engine': '+'.join(e for e in ('vx', 'kx', 'bx') if c.get(e)),
        'level_claimed': {'category': c['level'], 'text': c.get('level_text', ''), 'design_ref': c.get('design_ref', 'DESIGN.md section 6 (%s: plan) and section 11 (as built: 11.1 engines and units, 11.3 levels, 11.5 functions under contract, 11.6 / 11.7 third session: rules R11-R14, functions newly proved)' % pid)},
        'level_note': c.get('level_note', '; '.join(c.get('trusted', []))[:1500]),
        'technique': c.get('technique', 'contract-based deductive verification (Verus on mechanically extracted functions; Kani function harnesses)'),
    })
na = [{'property_id': pid, 'reason': props.NOT_APPLICABLE.get(pid, 'check not built yet in this session (under construction); no verdict is claimed')} for pid in all_ids if pid not in props.PROPS]
m = {
    'version': 1,
    'setup_cmd': './setup.sh',
    'hooks': {'guard': 'kani', 'enable': 'no hook is compiled into /repo: Kani harnesses and contracts are injected into a scratch copy under cfg(kani) (set by cargo kani); Verus contracts are woven into mechanically extracted copies of the functions',
              'baseline_off_cmd': './runtests.sh --full', 'source_commits': [], 'add_only': True},
    'engines': [
        {'name': 'VX', 'path': 'vx/', 'serves_properties': [p for p in all_ids if props.PROPS.get(p, {}).get('vx')], 'kind_free_text': 'Verus 0.2026.09.13 on functions extracted verbatim from /repo on every run, contracts woven in (vx/units/*.vrs)'},
        {'name': 'KX', 'path': 'kx/', 'serves_properties': [p for p in all_ids if props.PROPS.get(p, {}).get('kx')], 'kind_free_text': 'Kani 0.68 harnesses/contracts injected into a scratch copy of the real crates'},
        {'name': 'BX', 'path': 'bx/', 'serves_properties': [p for p in all_ids if props.PROPS.get(p, {}).get('bx')], 'kind_free_text': 'bounded stand-in: executes the real crates against the same contracts written as run-time oracles; replay driver and witness finder'},
    ],
    'checks': checks,
    'not_applicable': na,
    'notes': 'exit 0 held / exit 1 + VIOLATION line / exit 2 undecided (lost anchor, unsupported construct, solver limit) - never an alarm. known_findings.json lists genuine defects (fixed or known).',
}
json.dump(m, open(os.path.join(ROOT, 'MANIFEST.json'), 'w'), indent=1)
print('MANIFEST.json: %d checks, %d not_applicable' % (len(checks), len(na)))
