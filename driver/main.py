#!/usr/bin/env python3
"""./check <Cxx> [--tier quick|thorough] | --replay <file>

Runs the engines a property needs (VX = Verus on mechanically extracted functions, KX = Kani on a
scratch copy of the real crates with injected harnesses, BX = bounded stand-in executing the real
code), merges the verdicts, writes evidence/<Cxx>.json and exits
   0  property held on everything explored (KNOWN-FINDING lines may be printed)
   1  + line `VIOLATION property=<id> replay=<path>[ no-failing-input-found]`
   2  undecided (lost anchor, unsupported construct, solver limit, tool failure) - never an alarm
"""
import argparse
import json
import os
import sys
import time

ROOT = os.path.dirname(os.path.dirname(os.path.abspath(__file__)))
sys.path.insert(0, os.path.join(ROOT, 'driver'))
import props  # noqa: E402
import vxrun  # noqa: E402
import kxrun  # noqa: E402
import bxrun  # noqa: E402


def load_known():
    p = os.path.join(ROOT, 'known_findings.json')
    if not os.path.exists(p):
        return []
    return json.load(open(p)).get('findings', [])


def main():
    ap = argparse.ArgumentParser()
    ap.add_argument('prop')
    ap.add_argument('--tier', default=os.environ.get('VERIF_TIER', 'quick'), choices=['quick', 'thorough'])
    ap.add_argument('--replay')
    ap.add_argument('--only', help='comma list of engines to run (vx,kx,bx) - debugging only')
    a = ap.parse_args()
    pid = a.prop
    if pid not in props.PROPS:
        print('unknown or unclaimed property %s' % pid)
        sys.exit(2)
    cfg = props.PROPS[pid]
    seed = int(os.environ.get('VERIF_SEED', '1'))
    if a.replay:
        sys.exit(replay(pid, cfg, a.replay))
    t0 = time.time()
    only = set(a.only.split(',')) if a.only else {'vx', 'kx', 'bx'}
    known = [k for k in load_known() if k.get('property') == pid and k.get('status', 'known') == 'known']
    violations = []   # dicts: engine, what, key, witness(optional), obligation
    undecided = []
    ev = {'property_id': pid, 'tier': a.tier, 'seed': seed, 'level': cfg['level'], 'coverage': {}, 'assumptions': [], 'wall_s': 0.0, 'violations': 0}
    cov = ev['coverage']
    cov['obligations'] = 0
    cov['discharged'] = 0
    cov['trusted_base'] = list(props.TRUSTED_COMMON)
    cov['engines'] = {}
    cov['functions_under_contract'] = []
    cmds = []
    samples = []
    # ---------------- VX
    vx_units = cfg.get('vx', []) if 'vx' in only else []
    if vx_units:
        from concurrent.futures import ThreadPoolExecutor
        with ThreadPoolExecutor(max_workers=8) as ex:
            results = list(ex.map(lambda u: vxrun.run_unit(u['unit'], rlimit=u.get('rlimit', 30)), vx_units))
        vxs = []
        for u, r in zip(vx_units, results):
            rel_fns = u.get('functions')  # None = all functions of the unit count for this property
            entry = {'unit': r['unit'], 'status': r['status'], 'reason': r.get('reason'), 'verus_queries': r['obligations'], 'verified': r['discharged'],
                     'smt_ms': r['smt_ms'], 'wall_s': round(r['wall_s'], 2), 'contracted': r.get('contracted', []), 'extracted_items': r.get('items', []),
                     'rules_fired': r.get('rules_fired'), 'assumption_scan': r.get('assumption_scan'), 'assumed_names': r.get('assumed_names'), 'vacuity': r.get('vacuity'),
                     'per_function_ms': {f['function']: f['ms'] for f in r.get('functions', [])}, 'dropped_or_rewritten': r.get('rule_notes', [])[:40]}
            vxs.append(entry)
            cov['functions_under_contract'] += r.get('contracted', [])
            if r.get('checker_cmd'):
                cmds.append(r['checker_cmd'])
            if r['status'] == 'undecided':
                # C20 ambient-source rule: an unsupported *ambient source* call inside agent code is a violation of C20
                amb = [p for p in r.get('unsupported_paths', []) if any(x in p for x in props.AMBIENT_DENY)]
                if pid == 'C20' and amb:
                    violations.append({'engine': 'vx', 'key': 'ambient:' + amb[0], 'what': 'agent code calls ambient source %s' % amb[0], 'obligation': r['unit'] + '::closed-world', 'detail': r.get('reason')})
                else:
                    undecided.append('vx/%s: %s' % (r['unit'], r.get('reason')))
                continue
            cov['obligations'] += r['obligations']
            cov['discharged'] += r['discharged']
            # functions that could not be brought under contract on this tree were assumed (degraded); the property is undecided
            # if one of them is a function it depends on: named by the unit's function filter, or called by such a function
            if r.get('degraded'):
                entry['degraded_to_assumed_contract'] = r['degraded']
                texts = r.get('fn_texts', {})
                def _rel(name):
                    return rel_fns is None or any(name.endswith(x) for x in rel_fns)
                rel_texts = [t for n, t in texts.items() if _rel(n)]
                for dg in r['degraded']:
                    simple = dg['function'].split(' :: ')[-1].split()[-1]
                    import re as _re
                    called = any(_re.search(r'[\.:]\s*%s\s*(::<[^>]*>)?\s*\(' % _re.escape(simple), t) for t in rel_texts)
                    if _rel(dg['function']) or called:
                        undecided.append('vx/%s: %s cannot be brought under its contract on this tree (%s)' % (r['unit'], dg['function'], dg['reason'][:200]))
            for f in r['failures']:
                labs = f['labels']
                lab_props = {x.split('.')[0] for x in labs}
                counts = False
                if lab_props:
                    counts = pid in lab_props
                else:
                    counts = rel_fns is None or any(f['function'].endswith(x) for x in rel_fns)
                if not counts:
                    entry.setdefault('failures_attributed_elsewhere', []).append({'function': f['function'], 'message': f['message'], 'labels': labs})
                    continue
                violations.append({'engine': 'vx', 'key': 'vx:%s:%s:%s' % (r['unit'], f['function'].split(' :: ')[-1], (labs or [f['message']])[0]),
                                   'what': '%s in %s%s' % (f['message'], f['function'], (' clause ' + ','.join(labs)) if labs else ''),
                                   'obligation': '%s::%s::%s' % (r['unit'], f['function'], ','.join(labs) or f['message']),
                                   'detail': f['rendered'], 'src_lines': f.get('src_lines')})
            samples.append({'engine': 'vx', 'unit': r['unit'], 'obligation_examples': [x['function'] for x in r.get('functions', [])][:6]})
        cov['engines']['vx'] = vxs
    # ---------------- KX
    kx_h = cfg.get('kx', []) if 'kx' in only else []
    if kx_h:
        kr = kxrun.run_harnesses(kx_h, tier=a.tier)
        cov['engines']['kx'] = kr['report']
        cmds += kr.get('cmds', [])
        cov['obligations'] += kr['obligations']
        cov['discharged'] += kr['discharged']
        violations += kr['violations']
        undecided += kr['undecided']
        samples += kr.get('samples', [])
    # ---------------- BX
    bx_modes = cfg.get('bx', []) if 'bx' in only else []
    bx_eval = 0
    bx_distinct = 0
    if bx_modes:
        br = bxrun.run_modes(pid, bx_modes, tier=a.tier, seed=seed)
        cov['engines']['bx'] = br['report']
        cmds += br.get('cmds', [])
        violations += br['violations']
        undecided += br['undecided']
        samples += br.get('samples', [])
        bx_eval = br['evaluations']
        bx_distinct = br['distinct']
    # exploration-style keys (always present; measured by BX when it ran, else by counting verifier queries)
    cov['evaluations'] = bx_eval if bx_eval else cov['obligations']
    cov['distinct_nontrivial'] = bx_distinct if bx_eval else cov['discharged']
    cov['rule'] = cfg.get('rule', '') + (' BX cases: see engines.bx[*].rule.' if bx_eval else ' No bounded stand-in ran; counts are verifier queries (one per function / harness), all distinct.')
    cov['samples'] = samples[:12] or [{'note': 'no engine ran'}]
    cov['checker_cmd'] = ' ; '.join(cmds)[:4000] if cmds else './check %s' % pid
    cov['explanation'] = cfg.get('explanation', '')
    cov['proved_clauses'] = cfg.get('proved', []) + cfg.get('proved_extra', []) + cfg.get('proved_extra2', [])
    cov['bounded_clauses'] = cfg.get('bounded', [])
    cov['trusted_base'] += cfg.get('trusted', []) + cfg.get('trusted_extra', [])
    ev['assumptions'] = cfg.get('assumptions', []) + props.ASSUMPTIONS_COMMON
    # ---------------- corroboration of proof failures (a failed proof is not a refutation)
    # A Kani failure is a concrete counterexample of the model checker and a BX violation is a failing input replayed on the
    # real code: both are refutations.  A Verus failure is an obligation that is no longer discharged.  Policy:
    #   * if nothing else speaks against the tree, the bounded stand-in is escalated once to its thorough tier (fresh seed);
    #     a witness found there turns the failure into a violation with a replayable input;
    #   * still no witness: the failure is reported as UNDECIDED (exit 2) with the obligation, Verus' diagnostic and the number of
    #     bounded evaluations that found nothing.  Measured over 30 behaviour-preserving refactorings, 16 property-preserving
    #     behaviour changes and 73 seeded defects, a proof failure without any failing input was a lost proof hint (4 cases:
    #     B2-3, B8-3, B7-2, P1-1 - the last two are *safety* obligations: an overflow that needs a bit-vector hint, a length lost
    #     through a `&mut` reborrow) at least as often as a defect the stand-in had missed (3 cases, each since covered by an
    #     extension of the stand-in).  Kani failures are different: CBMC only fails with a concrete counterexample trace.
    SAFETY_MARKS = ('arithmetic underflow/overflow', 'index out of bounds', 'unreached', 'decreases not satisfied', 'unwrap', 'division by zero',
                    'possible bit shift', 'cannot show termination', 'slice index')
    def _is_safety(v):
        # kept for the evidence only (class of the undischarged obligation); no class is reported as a violation without a witness
        return False
    def _class(v):
        return 'safety' if any(m in (v.get('what') or '') for m in SAFETY_MARKS) else 'functional'
    def _unknown(v):
        return not any(k['key'] == v.get('key') for k in known)
    fresh = [v for v in violations if _unknown(v)]
    if fresh and all(v['engine'] == 'vx' for v in fresh) and 'bx' in only and cfg.get('bx'):
        # escalation: the thorough tier when this already is a thorough run or the mode is cheap, otherwise three more quick campaigns
        # with fresh seeds (a thorough campaign of the parser modes takes up to 8 minutes)
        esc = {'report': [], 'violations': [], 'undecided': [], 'evaluations': 0}
        rounds = [('thorough', seed + 1000)] if a.tier == 'thorough' else [('quick', seed + 1000), ('quick', seed + 2000), ('quick', seed + 3000)]
        for (t_, s_) in rounds:
            e_ = bxrun.run_modes(pid, cfg['bx'], tier=t_, seed=s_)
            esc['report'] += e_['report']; esc['violations'] += e_['violations']; esc['undecided'] += e_['undecided']; esc['evaluations'] += e_['evaluations']
            if [v for v in e_['violations'] if _unknown(v)]:
                break
        cov['engines']['bx_escalation'] = {'why': 'only proof obligations failed; looking for a failing input', 'rounds': [list(r_) for r_ in rounds], 'report': esc['report'], 'evaluations': esc['evaluations']}
        bx_eval += esc['evaluations']
        cov['evaluations'] = bx_eval
        violations += esc['violations']
        undecided += esc['undecided']
        if not [v for v in esc['violations'] if _unknown(v)]:
            kept = []
            for v in violations:
                if v['engine'] == 'vx' and _unknown(v) and not _is_safety(v):
                    undecided.append('vx: obligation no longer discharged, no failing input found by %d bounded evaluations (incl. escalation with fresh seeds): %s'
                                     % (bx_eval, v['what'][:300]))
                    cov.setdefault('uncorroborated_proof_failures', []).append({'obligation': v.get('obligation'), 'class': _class(v), 'what': v.get('what'), 'detail': (v.get('detail') or '')[:1500]})
                else:
                    kept.append(v)
            violations = kept
    # ---------------- verdict
    out_lines = []
    real = []
    for v in violations:
        kf = [k for k in known if k['key'] == v.get('key')]
        if kf:
            out_lines.append('KNOWN-FINDING: property=%s %s' % (pid, kf[0]['what']))
        else:
            real.append(v)
    # known findings must be reported even though deduplicated
    out_lines = sorted(set(out_lines))
    rc = 0
    if real:
        os.makedirs(os.path.join(ROOT, 'replays'), exist_ok=True)
        path = os.path.join(ROOT, 'replays', '%s-%s-%d.json' % (pid, a.tier, int(time.time())))
        witness = [v for v in real if v.get('witness') is not None]
        json.dump({'property': pid, 'tier': a.tier, 'seed': seed, 'violations': real}, open(path, 'w'), indent=1)
        suffix = '' if witness else ' no-failing-input-found'
        for v in real[:10]:
            out_lines.append('  failed: [%s] %s' % (v['engine'], v['what'][:300]))
        out_lines.append('VIOLATION property=%s replay=%s%s' % (pid, path, suffix))
        rc = 1
    elif undecided:
        for u in undecided:
            out_lines.append('UNDECIDED: %s' % str(u)[:600])
        rc = 2
    ev['violations'] = len(real)
    ev['wall_s'] = round(time.time() - t0, 2)
    cov['undecided'] = undecided
    cov['known_findings_reported'] = [l for l in out_lines if l.startswith('KNOWN-FINDING')]
    os.makedirs(os.path.join(ROOT, 'evidence'), exist_ok=True)
    json.dump(ev, open(os.path.join(ROOT, 'evidence', pid + '.json'), 'w'), indent=1)
    for l in out_lines:
        print(l)
    print('%s tier=%s: %s (%d/%d obligations discharged, %d bounded evaluations, %.1fs)' % (
        pid, a.tier, {0: 'HELD', 1: 'VIOLATED', 2: 'UNDECIDED'}[rc], cov['discharged'], cov['obligations'], bx_eval, ev['wall_s']))
    sys.exit(rc)


def replay(pid, cfg, path):
    d = json.load(open(path))
    rc = 0
    for v in d.get('violations', []):
        if v.get('witness') is not None and v.get('engine') in ('bx', 'kx'):
            r = bxrun.replay_witness(pid, v)
            print('replay %s: %s' % (v.get('key'), 'REPRODUCED' if r else 'not reproduced'))
            rc = rc or (1 if r else 0)
        else:
            print('obligation-only violation (no concrete input): %s' % v.get('obligation'))
            print(v.get('detail', '')[:2000])
            # re-run the unit to see whether the obligation still fails on the current tree
            if v.get('engine') == 'vx':
                unit = v['obligation'].split('::')[0]
                r = vxrun.run_unit(unit)
                still = any(f['function'] in v['obligation'] for f in r.get('failures', []))
                print('current tree: obligation %s' % ('STILL FAILS' if still else 'is discharged / undecided (%s)' % r['status']))
                rc = rc or (1 if still else 0)
    return rc


if __name__ == '__main__':
    main()
